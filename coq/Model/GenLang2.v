(* The generator language of GenLang.v, extended for TwoLevelCheckpointSchedule._iterator (twolevel_binomial.py): named integer
   locals, one list local used as a stack (`snapshots`: [x], len, [-1], pop(), append(x)), the constructor parameters period,
   binomial_snapshots, binomial_storage, trajectory, the operators // * min, calls of n_advance, `assert`, `del`.  `run` resumes a
   suspended generator up to its next yield, exception or end. *)
From Coq Require Import ZArith List Bool.
Require Import Actions NAdvance Multistage Online.
Import ListNotations.
Open Scope Z_scope.

Inductive loc := Ln | Ln0s | Ln1s | Lcp | Lns | Ln0 | Ln1.          (* n, n0s, n1s, cp_n, n_snapshots, n0, n1 *)
Definition loc_eqb (a b : loc) : bool :=
  match a, b with Ln, Ln | Ln0s, Ln0s | Ln1s, Ln1s | Lcp, Lcp | Lns, Lns | Ln0, Ln0 | Ln1, Ln1 => true | _, _ => false end.

Inductive zexp :=
 | ZC (z : Z) | ZN | ZR | ZMax | ZPeriod | ZBs              (* literal, self._n, self._r, self._max_n, self._period, self._binomial_snapshots *)
 | ZL (x : loc) | ZLen | ZTop                               (* a local, len(snapshots), snapshots[-1] *)
 | ZAdd (a b : zexp) | ZSub (a b : zexp) | ZMul (a b : zexp) | ZDiv (a b : zexp) | ZMin (a b : zexp)
 | ZNadv (a b : zexp).                                      (* n_advance(a, b, trajectory=self._trajectory) *)
Inductive bexp :=
 | BTrue | BMaxIsNone | BMaxNotNone
 | BEq (a b : zexp) | BNe (a b : zexp) | BLt (a b : zexp) | BGt (a b : zexp) | BGe (a b : zexp).
Inductive sexp := SC (s : storage) | SBst.                  (* StorageType.X, self._binomial_storage *)
Inductive aexp :=
 | AForward (n0 n1 : zexp) (wi wa : bool) (st : sexp) | AReverse (n1 n0 : zexp) (c : bool)
 | ACopy (n : zexp) (src dst : sexp) | AMove (n : zexp) (src dst : sexp) | AEndForward | AEndReverse.
Inductive stmt :=
 | SSkip | SSeq (a b : stmt) | SIf (c : bexp) (a b : stmt) | SWhile (c : bexp) (body : stmt)
 | SSetN (e : zexp) | SSetR (e : zexp) | SSetL (x : loc) (e : zexp) | SDel (xs : list loc)
 | SListInit (e : zexp) | SListPop | SListPush (e : zexp)
 | SAssert (c : bexp) | SYield (a : aexp) | SRaise (e : exn).

Record cfg := { period : Z; bsn : Z; bst : storage; trj : traj }.
Record gst := { gb : base; gsn : list Z; gl : loc -> option Z }.      (* attributes, the stack (top first), the locals *)

Fixpoint zeval (c : cfg) (e : zexp) (g : gst) : res Z :=
  match e with
  | ZC z => Ok z | ZN => Ok (n_ (gb g)) | ZR => Ok (r_ (gb g))
  | ZMax => match max_n_ (gb g) with Some m => Ok m | None => Err TypeError end
  | ZPeriod => Ok (period c) | ZBs => Ok (bsn c)
  | ZL x => match gl g x with Some v => Ok v | None => Err UnboundLocalError end
  | ZLen => Ok (len (gsn g))
  | ZTop => match gsn g with v :: _ => Ok v | [] => Err IndexError end
  | ZAdd a b => do x <- zeval c a g; do y <- zeval c b g; Ok (x + y)
  | ZSub a b => do x <- zeval c a g; do y <- zeval c b g; Ok (x - y)
  | ZMul a b => do x <- zeval c a g; do y <- zeval c b g; Ok (x * y)
  | ZDiv a b => do x <- zeval c a g; do y <- zeval c b g; Ok (x / y)
  | ZMin a b => do x <- zeval c a g; do y <- zeval c b g; Ok (Z.min x y)
  | ZNadv a b => do x <- zeval c a g; do y <- zeval c b g; nadv x y (trj c)
  end.
Definition cmp2 (c : cfg) (f : Z -> Z -> bool) (a b : zexp) (g : gst) : res bool := do x <- zeval c a g; do y <- zeval c b g; Ok (f x y).
Definition beval (c : cfg) (t : bexp) (g : gst) : res bool :=
  match t with
  | BTrue => Ok true
  | BMaxIsNone => Ok (match max_n_ (gb g) with None => true | Some _ => false end)
  | BMaxNotNone => Ok (match max_n_ (gb g) with None => false | Some _ => true end)
  | BEq a b => cmp2 c Z.eqb a b g | BNe a b => cmp2 c (fun x y => negb (x =? y)) a b g
  | BLt a b => cmp2 c Z.ltb a b g | BGt a b => cmp2 c Z.gtb a b g | BGe a b => cmp2 c Z.geb a b g
  end.
Definition seval (c : cfg) (s : sexp) : storage := match s with SC x => x | SBst => bst c end.
Definition aeval (c : cfg) (a : aexp) (g : gst) : res action :=
  match a with
  | AForward a0 a1 wi wa st => do x <- zeval c a0 g; do y <- zeval c a1 g; Ok (Forward x y wi wa (seval c st))
  | AReverse a1 a0 cl => do x <- zeval c a1 g; do y <- zeval c a0 g; Ok (Reverse x y cl)
  | ACopy n s d => do x <- zeval c n g; Ok (Copy x (seval c s) (seval c d))
  | AMove n s d => do x <- zeval c n g; Ok (Move x (seval c s) (seval c d))
  | AEndForward => Ok EndForward | AEndReverse => Ok EndReverse
  end.

Definition set_n (g : gst) (v : Z) : gst := {| gb := {| n_ := v; r_ := r_ (gb g); max_n_ := max_n_ (gb g) |}; gsn := gsn g; gl := gl g |}.
Definition set_r (g : gst) (v : Z) : gst := {| gb := {| n_ := n_ (gb g); r_ := v; max_n_ := max_n_ (gb g) |}; gsn := gsn g; gl := gl g |}.
Definition set_l (g : gst) (x : loc) (v : option Z) : gst := {| gb := gb g; gsn := gsn g; gl := fun y => if loc_eqb y x then v else gl g y |}.
Definition set_sn (g : gst) (l : list Z) : gst := {| gb := gb g; gsn := l; gl := gl g |}.

Inductive frame := FS (s : stmt) | FLoop (c : bexp) (body : stmt).

Fixpoint run (fuel : nat) (c : cfg) (K : list frame) (g : gst) : (list frame * gst) * outcome :=
  match fuel with O => (([], g), Raise OutOfFuel) | S f =>
  match K with
  | [] => (([], g), StopIteration)
  | FLoop t body :: K' =>
      match beval c t g with Err e => (([], g), Raise e) | Ok true => run f c (FS body :: FLoop t body :: K') g | Ok false => run f c K' g end
  | FS s :: K' =>
      match s with
      | SSkip => run f c K' g
      | SSeq a b => run f c (FS a :: FS b :: K') g
      | SIf t a b => match beval c t g with Err e => (([], g), Raise e) | Ok true => run f c (FS a :: K') g | Ok false => run f c (FS b :: K') g end
      | SWhile t body => run f c (FLoop t body :: K') g
      | SSetN e => match zeval c e g with Err e => (([], g), Raise e) | Ok v => run f c K' (set_n g v) end
      | SSetR e => match zeval c e g with Err e => (([], g), Raise e) | Ok v => run f c K' (set_r g v) end
      | SSetL x e => match zeval c e g with Err e => (([], g), Raise e) | Ok v => run f c K' (set_l g x (Some v)) end
      | SDel xs => run f c K' (fold_left (fun g x => set_l g x None) xs g)
      | SListInit e => match zeval c e g with Err e => (([], g), Raise e) | Ok v => run f c K' (set_sn g [v]) end
      | SListPop => match gsn g with _ :: r => run f c K' (set_sn g r) | [] => (([], g), Raise IndexError) end
      | SListPush e => match zeval c e g with Err e => (([], g), Raise e) | Ok v => run f c K' (set_sn g (v :: gsn g)) end
      | SAssert t => match beval c t g with Err e => (([], g), Raise e) | Ok true => run f c K' g | Ok false => (([], g), Raise AssertionError) end
      | SYield a => match aeval c a g with Err e => (([], g), Raise e) | Ok act => ((K', g), Yield act) end
      | SRaise e => (([], g), Raise e)
      end
  end end.

Definition gfinalize (k : Z) (g : gst) : gst * option exn :=
  let '(b', e) := finalize k (gb g) in ({| gb := b'; gsn := gsn g; gl := gl g |}, e).
