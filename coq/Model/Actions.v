(* Shared value types: schedule.py StorageType and the six action classes; Python exception classes. *)
From Coq Require Import ZArith List Bool.
Import ListNotations.
Open Scope Z_scope.

Inductive storage := RAM | DISK | WORK | NONE.
Inductive action :=
 | Forward (n0 n1 : Z) (write_ics write_adj_deps : bool) (st : storage)
 | Reverse (n1 n0 : Z) (clear_adj_deps : bool)
 | Copy (n : Z) (src dst : storage)
 | Move (n : Z) (src dst : storage)
 | EndForward | EndReverse.

Inductive exn := ValueError | RuntimeError | TypeError | IndexError | KeyError | AssertionError
 | InvalidForwardStep | InvalidReverseStep | InvalidActionIndex | InvalidRevolverAction
 | UnboundLocalError | OutOfFuel.

Inductive outcome := Yield (a : action) | StopIteration | Raise (e : exn).

Inductive res (A : Type) := Ok (a : A) | Err (e : exn).
Arguments Ok {A}. Arguments Err {A}.
Definition bind {A B} (r : res A) (f : A -> res B) : res B := match r with Ok a => f a | Err e => Err e end.
Notation "'do' x <- a ; b" := (bind a (fun x => b)) (at level 200, x name, a at level 100, b at level 200).

Definition maxsize : Z := 9223372036854775807.   (* sys.maxsize *)

Definition st_eqb (a b : storage) := match a, b with RAM,RAM | DISK,DISK | WORK,WORK | NONE,NONE => true | _,_ => false end.
Definition act_eqb (a b : action) : bool :=
  match a, b with
  | Forward a1 a2 a3 a4 a5, Forward b1 b2 b3 b4 b5 => (a1 =? b1) && (a2 =? b2) && Bool.eqb a3 b3 && Bool.eqb a4 b4 && st_eqb a5 b5
  | Reverse a1 a2 a3, Reverse b1 b2 b3 => (a1 =? b1) && (a2 =? b2) && Bool.eqb a3 b3
  | Copy a1 a2 a3, Copy b1 b2 b3 | Move a1 a2 a3, Move b1 b2 b3 => (a1 =? b1) && st_eqb a2 b2 && st_eqb a3 b3
  | EndForward, EndForward | EndReverse, EndReverse => true | _, _ => false end.
Definition is_cp (s : storage) := match s with RAM | DISK => true | _ => false end.
Definition len {A} (l : list A) : Z := Z.of_nat (length l).
