(* optimal_extra_steps / optimal_steps_binomial (multistage.py:312-372) and optimal_steps_mixed (mixed.py:226-245),
   each behind cache_step (mixed.py:212-223): the pure fuelled form (for statements) and the state-passing form with the
   dictionary explicit (for running). *)
From Coq Require Import ZArith List Bool.
Require Import Actions.
Import ListNotations.
Open Scope Z_scope.

(* optimal_extra_steps (multistage.py:312-353) behind cache_step (mixed.py:212-223); pure fuelled form *)
Fixpoint loop (cnt : nat) (i : Z) (f : Z -> res Z) (m : option Z) : res (option Z) :=
  match cnt with O => Ok m | S c =>
    do m1 <- f i;
    loop c (i+1) f (match m with None => Some m1 | Some m0 => if m1 <? m0 then Some m1 else m end) end.
Fixpoint Em (fuel : nat) (n s : Z) : res Z :=
  match fuel with O => Err OutOfFuel | S f =>
  let s := Z.min s (n - 1) in
  if n <=? 0 then Err ValueError else
  if (s <? Z.min 1 (n-1)) || (s >? n - 1) then Err ValueError else
  if n =? 1 then Ok 0 else
  if s =? 1 then Ok (n*(n-1)/2) else
  do m <- loop (Z.to_nat (n - 1)) 1 (fun i => do a <- Em f i s; do b <- Em f (n - i) (s - 1); Ok (i + a + b)) None;
  match m with None => Err RuntimeError | Some v => Ok v end
  end.


Definition zcache := list ((Z * Z) * Z).
Fixpoint zfind (n s : Z) (c : zcache) : option Z :=
  match c with [] => None | ((n', s'), v) :: r => if (n =? n') && (s =? s') then Some v else zfind n s r end.
Fixpoint loopE (call : zcache -> Z -> Z -> zcache * res Z) (cnt : nat) (i n s : Z) (c : zcache) (m : option Z) : zcache * res (option Z) :=
  match cnt with O => (c, Ok m) | S k =>
    let '(c1, ra) := call c i s in
    match ra with Err e => (c1, Err e) | Ok a =>
    let '(c2, rb) := call c1 (n - i) (s - 1) in
    match rb with Err e => (c2, Err e) | Ok b =>
    let m1 := i + a + b in
    loopE call k (i + 1) n s c2 (match m with None => Some m1 | Some m0 => if m1 <? m0 then Some m1 else m end) end end end.
Fixpoint EmS (fuel : nat) (c : zcache) (n s : Z) : zcache * res Z :=
  match fuel with O => (c, Err OutOfFuel) | S f =>
  let s := Z.min s (n - 1) in
  match zfind n s c with
  | Some v => (c, Ok v)
  | None =>
    let '(c', r) :=
      if n <=? 0 then (c, Err ValueError) else
      if (s <? Z.min 1 (n-1)) || (s >? n - 1) then (c, Err ValueError) else
      if n =? 1 then (c, Ok 0) else
      if s =? 1 then (c, Ok (n*(n-1)/2)) else
      let '(c1, rm) := loopE (EmS f) (Z.to_nat (n - 1)) 1 n s c None in
      match rm with Err e => (c1, Err e) | Ok None => (c1, Err RuntimeError) | Ok (Some v) => (c1, Ok v) end in
    match r with Ok v => (((n, s), v) :: c', Ok v) | Err e => (c', Err e) end
  end end.
Definition optimal_extra_steps (n s : Z) : res Z := snd (EmS (Z.to_nat (n + 2)) [] n s).
Definition optimal_steps_binomial (n s : Z) : res Z := do e <- optimal_extra_steps n s; Ok (n + e).

(* optimal_steps_mixed: m = 1 + f(n-1, s-1); for i in range(2, n): m = min(m, i + f(i, s) + f(n-i, s-1)) *)
Fixpoint loopX (call : zcache -> Z -> Z -> zcache * res Z) (cnt : nat) (i n s : Z) (c : zcache) (m : Z) : zcache * res Z :=
  match cnt with O => (c, Ok m) | S k =>
    let '(c1, ra) := call c i s in
    match ra with Err e => (c1, Err e) | Ok a =>
    let '(c2, rb) := call c1 (n - i) (s - 1) in
    match rb with Err e => (c2, Err e) | Ok b =>
    loopX call k (i + 1) n s c2 (Z.min m (i + a + b)) end end end.
Fixpoint OsmS (fuel : nat) (c : zcache) (n s : Z) : zcache * res Z :=
  match fuel with O => (c, Err OutOfFuel) | S f =>
  let s := Z.min s (n - 1) in
  match zfind n s c with
  | Some v => (c, Ok v)
  | None =>
    let '(c', r) :=
      if n <=? 0 then (c, Err ValueError) else
      if (s <? Z.min 1 (n-1)) || (s >? n - 1) then (c, Err ValueError) else
      if n <=? s + 1 then (c, Ok n) else
      if s =? 1 then (c, Ok (n*(n+1)/2 - 1)) else
      let '(c0, r0) := OsmS f c (n - 1) (s - 1) in
      match r0 with Err e => (c0, Err e) | Ok a0 => loopX (OsmS f) (Z.to_nat (n - 2)) 2 n s c0 (1 + a0) end in
    match r with Ok v => (((n, s), v) :: c', Ok v) | Err e => (c', Err e) end
  end end.
Definition optimal_steps_mixed (n s : Z) : res Z := snd (OsmS (Z.to_nat (n + 2)) [] n s).
