(* MixedCheckpointSchedule (mixed.py:28-209), mixed_step_memoization (248-275, with the cache_step clamp),
   mixed_steps_tabulation (285-337). *)
From Coq Require Import ZArith List Bool.
Require Import Actions.
Import ListNotations.
Open Scope Z_scope.

(* StepType *)
Inductive kind := KNone | KForward | KFR | KAdj | KIcs.
Definition kind_eqb (a b : kind) := match a, b with KNone,KNone | KForward,KForward | KFR,KFR | KAdj,KAdj | KIcs,KIcs => true | _,_ => false end.
Definition plan_t := (kind * Z * Z)%type.

(* ---- mixed_step_memoization as a pure fuelled recursion (mixed.py:248-275), incl. the cache_step clamp ---- *)
Fixpoint for_i (cnt : nat) (i : Z) (f : Z -> res Z) (m : option plan_t) : res (option plan_t) :=
  match cnt with O => Ok m | S c =>
    do m1 <- f i;
    let m' := match m with None => Some (KIcs, i, m1) | Some (_, _, c0) => if m1 <=? c0 then Some (KIcs, i, m1) else m end in
    for_i c (i+1) f m' end.
Fixpoint memo (fuel : nat) (n s : Z) : res plan_t :=
  match fuel with O => Err OutOfFuel | S f =>
  let s := Z.min s (n - 1) in
  if n <=? 0 then Err ValueError else
  if (s <? Z.min 1 (n-1)) || (s >? n - 1) then Err ValueError else
  if n =? 1 then Ok (KFR, 1, 1) else
  if n <=? s + 1 then Ok (KAdj, 1, n) else
  if s =? 1 then Ok (KIcs, n - 1, n*(n+1)/2 - 1) else
  do m <- for_i (Z.to_nat (n - 2)) 2 (fun i => do a <- memo f i s; do b <- memo f (n - i) (s - 1); Ok (i + snd a + snd b)) None;
  match m with None => Err RuntimeError | Some (k, i, c0) =>
    do a <- memo f (n - 1) (s - 1);
    let m1 := 1 + snd a in
    if m1 <? c0 then Ok (KAdj, 1, m1) else Ok (k, i, c0) end
  end.

(* ---- cache_step (mixed.py:212-223) around mixed_step_memoization, with the dictionary explicit ---- *)
Definition cache := list ((Z * Z) * plan_t).
Fixpoint find (n s : Z) (c : cache) : option plan_t :=
  match c with [] => None | ((n', s'), v) :: r => if (n =? n') && (s =? s') then Some v else find n s r end.
Definition add (n s : Z) (v : plan_t) (c : cache) : cache := ((n, s), v) :: c.

(* the for loop of the body, threading the cache; stops at the first exception *)
Fixpoint loopM (call : cache -> Z -> Z -> cache * res plan_t) (cnt : nat) (i n s : Z) (c : cache) (m : option plan_t)
  : cache * res (option plan_t) :=
  match cnt with O => (c, Ok m) | S k =>
    let '(c1, ra) := call c i s in
    match ra with Err e => (c1, Err e) | Ok a =>
    let '(c2, rb) := call c1 (n - i) (s - 1) in
    match rb with Err e => (c2, Err e) | Ok b =>
    let m1 := i + snd a + snd b in
    let m' := match m with None => Some (KIcs, i, m1) | Some (_, _, c0) => if m1 <=? c0 then Some (KIcs, i, m1) else m end in
    loopM call k (i + 1) n s c2 m' end end end.

Fixpoint memoS (fuel : nat) (c : cache) (n s : Z) : cache * res plan_t :=
  match fuel with O => (c, Err OutOfFuel) | S f =>
  let s := Z.min s (n - 1) in                       (* wrapped_fn: "avoid some cache misses" *)
  match find n s c with
  | Some v => (c, Ok v)
  | None =>
    (* fn(n, s) *)
    let '(c', r) :=
      if n <=? 0 then (c, Err ValueError) else
      if (s <? Z.min 1 (n-1)) || (s >? n - 1) then (c, Err ValueError) else
      if n =? 1 then (c, Ok (KFR, 1, 1)) else
      if n <=? s + 1 then (c, Ok (KAdj, 1, n)) else
      if s =? 1 then (c, Ok (KIcs, n - 1, n*(n+1)/2 - 1)) else
      let '(c1, rm) := loopM (memoS f) (Z.to_nat (n - 2)) 2 n s c None in
      match rm with
      | Err e => (c1, Err e)
      | Ok None => (c1, Err RuntimeError)
      | Ok (Some (k, i, c0)) =>
        let '(c2, ra) := memoS f c1 (n - 1) (s - 1) in
        match ra with Err e => (c2, Err e) | Ok a =>
          let m1 := 1 + snd a in
          (c2, Ok (if m1 <? c0 then (KAdj, 1, m1) else (k, i, c0))) end
      end in
    match r with Ok v => (add n s v c', Ok v) | Err e => (c', Err e) end
  end end.

(* the memoised planner as the iterator sees it in a process whose cache already holds the sub-problems of (n0, s0) *)
Definition memo_warm (n0 s0 : Z) : Z -> Z -> res plan_t :=
  let fuel := Z.to_nat (2*n0 + 4) in
  let warm := fst (memoS fuel [] n0 s0) in
  fun m k => snd (memoS fuel warm m k).

(* ---- mixed_steps_tabulation (mixed.py:285-337): table[n_i][s_i], initial (NONE,0,-1) ---- *)
Definition table := list (list plan_t).
Definition tget (t : table) (n s : Z) : res plan_t :=
  if (n <? 0) || (s <? 0) then Err IndexError else
  match nth_error t (Z.to_nat n) with None => Err IndexError
  | Some row => match nth_error row (Z.to_nat s) with None => Err IndexError | Some v => Ok v end end.
Fixpoint upd_list {A} (l : list A) (i : nat) (v : A) : list A :=
  match l, i with [], _ => [] | _ :: r, O => v :: r | x :: r, S i' => x :: upd_list r i' v end.
Definition tset (t : table) (n s : Z) (v : plan_t) : table :=
  match nth_error t (Z.to_nat n) with None => t | Some row => upd_list t (Z.to_nat n) (upd_list row (Z.to_nat s) v) end.
Fixpoint loop {S} (cnt : nat) (i : Z) (st : S) (f : Z -> S -> res S) : res S :=
  match cnt with O => Ok st | S c => do st' <- f i st; loop c (i+1) st' f end.
Definition tabulate (n s : Z) : res table :=
  let t0 : table := repeat (repeat (KNone, 0, -1) (Z.to_nat (s+1))) (Z.to_nat (n+1)) in
  do t1 <- (if n <? 1 then Err IndexError else loop (Z.to_nat (s+1)) 0 t0 (fun si t => Ok (tset t 1 si (KFR, 1, 1))));
  loop (Z.to_nat s) 1 t1 (fun si t => loop (Z.to_nat (n - 1)) 2 t (fun ni t =>
    if ni <=? si + 1 then Ok (tset t ni si (KAdj, 1, ni)) else
    if si =? 1 then Ok (tset t ni si (KIcs, ni - 1, ni*(ni+1)/2 - 1)) else
    do t <- loop (Z.to_nat (ni - 2)) 2 t (fun i t =>
       do a <- tget t i si; do b <- tget t (ni - i) (si - 1);
       if negb ((snd a >? 0) && (snd b >? 0)) then Err RuntimeError (* assert *) else
       let m1 := i + snd a + snd b in
       do cur <- tget t ni si;
       if (snd cur <? 0) || (m1 <=? snd cur) then Ok (tset t ni si (KIcs, i, m1)) else Ok t);
    do cur <- tget t ni si;
    if snd cur <? 0 then Err RuntimeError else
    do a <- tget t (ni - 1) (si - 1);
    if negb (snd a >? 0) then Err RuntimeError else
    let m1 := 1 + snd a in
    if m1 <? snd cur then Ok (tset t ni si (KAdj, 1, m1)) else Ok t)).

(* ---- the iterator (mixed.py:65-189) ---- *)
Inductive pc := PInner (stype : kind) | PFR2 (n1 : Z) | PAfterAdj (n0 n1 : Z) | PAfterIcs (n0 n1 : Z)
              | PDoRev | PAfterRev | PDone.
Record st := { pcv : pc; n_ : Z; r_ : Z; snaps : list (kind * Z * Z) (* top first *); exhausted : bool }.
Record cfg := { max_n : Z; snapshots : Z; stg : storage; plan : Z -> Z -> res plan_t }.
Definition mk p n r sn ex := {| pcv := p; n_ := n; r_ := r; snaps := sn; exhausted := ex |}.
Definition in_snaps (n0 : Z) (sn : list (kind*Z*Z)) := existsb (fun e => snd (fst e) =? n0) sn.

Fixpoint resume (fuel : nat) (c : cfg) (s : st) : st * outcome :=
  match fuel with O => (s, Raise OutOfFuel) | S f =>
  match pcv s with
  | PAfterAdj n0 n1 => resume f c (mk (PInner KAdj) (n_ s) (r_ s) ((KAdj, n0, n1) :: snaps s) false)
  | PAfterIcs n0 n1 =>
      if len (snaps s) >? snapshots c - 1 then (s, Raise RuntimeError)
      else resume f c (mk (PInner KIcs) (n_ s) (r_ s) ((KIcs, n0, n1) :: snaps s) false)
  | PFR2 n1 => (mk (PInner KFR) (n_ s + 1) (r_ s) (snaps s) false, Yield (Forward (n1 - 1) n1 false true WORK))
  | PInner stype =>
    if n_ s <? max_n c - r_ s then
      let n0 := n_ s in
      let reuse := in_snaps n0 (snaps s) in
      match plan c (max_n c - r_ s - n0) (snapshots c - len (snaps s) + (if reuse then 1 else 0)) with
      | Err e => (s, Raise e)
      | Ok (k, adv, _) =>
        let n1 := adv + n0 in
        let bad := reuse && match snaps s with
                            | (k', p, e) :: _ => negb (kind_eqb k' k && (p =? n0)) || (e <? n1)
                            | [] => true end in
        if bad then (s, Raise RuntimeError) else
        match k with
        | KFR => if n1 >? n0 + 1 then (mk (PFR2 n1) (n1 - 1) (r_ s) (snaps s) false, Yield (Forward n0 (n1 - 1) false false WORK))
                 else if n1 <=? n0 then (s, Raise InvalidForwardStep)
                 else (mk (PInner KFR) (n_ s + 1) (r_ s) (snaps s) false, Yield (Forward (n1 - 1) n1 false true WORK))
        | KForward => if n1 <=? n0 then (s, Raise InvalidForwardStep)
                      else (mk (PInner KForward) n1 (r_ s) (snaps s) false, Yield (Forward n0 n1 false false WORK))
        | KAdj => if negb (n1 =? n0 + 1) then (s, Raise InvalidForwardStep) else
                  if reuse then (s, Raise RuntimeError) else
                  if len (snaps s) >? snapshots c - 1 then (s, Raise RuntimeError) else
                  (mk (PAfterAdj n0 n1) n1 (r_ s) (snaps s) false, Yield (Forward n0 n1 false true (stg c)))
        | KIcs => if n1 <=? n0 + 1 then (s, Raise InvalidActionIndex) else
                  if reuse then (mk (PInner KIcs) n1 (r_ s) (snaps s) false, Yield (Forward n0 n1 false false WORK))
                  else (mk (PAfterIcs n0 n1) n1 (r_ s) (snaps s) false, Yield (Forward n0 n1 true false (stg c)))
        | KNone => (s, Raise RuntimeError)
        end
      end
    else if negb (n_ s =? max_n c - r_ s) then (s, Raise RuntimeError)
    else if negb (kind_eqb stype KNone || kind_eqb stype KFR) then (s, Raise RuntimeError)
    else if r_ s =? 0 then (mk PDoRev (n_ s) (r_ s) (snaps s) false, Yield EndForward)
    else resume f c (mk PDoRev (n_ s) (r_ s) (snaps s) false)
  | PDoRev => (mk PAfterRev (n_ s) (r_ s + 1) (snaps s) false, Yield (Reverse (max_n c - (r_ s + 1) + 1) (max_n c - (r_ s + 1)) true))
  | PAfterRev =>
    if r_ s =? max_n c then
      (if negb (Nat.eqb (length (snaps s)) 0) then (s, Raise RuntimeError) else (mk PDone (n_ s) (r_ s) [] true, Yield EndReverse))
    else match snaps s with
    | [] => (s, Raise IndexError)
    | (k, cp_n, _) :: rest =>
      if negb (kind_eqb k KIcs || kind_eqb k KAdj) then (s, Raise RuntimeError) else
      match plan c (max_n c - r_ s - cp_n) (snapshots c - len (snaps s) + 1) with
      | Err e => (s, Raise e)
      | Ok (k2, _, _) =>
        let del := negb (kind_eqb k k2) in
        let sn' := if del then rest else snaps s in
        match k with
        | KIcs => if cp_n + 1 >=? max_n c - r_ s then (s, Raise RuntimeError) else
                  (mk (PInner KNone) cp_n (r_ s) sn' false, Yield ((if del then Move else Copy) cp_n (stg c) WORK))
        | _ => if negb del || negb (cp_n + 1 =? max_n c - r_ s) then (s, Raise RuntimeError) else
                  (mk (PInner KNone) (cp_n + 1) (r_ s) sn' false, Yield ((if del then Move else Copy) cp_n (stg c) WORK))
        end
      end
    end
  | PDone => (s, StopIteration)
  end end.

Fixpoint run (fuel : nat) (c : cfg) (s : st) : list outcome :=
  match fuel with O => [] | S f =>
    let '(s', o) := resume 3 c s in
    match o with Yield a => o :: run f c s' | _ => [o] end end.

Definition construct (n s : Z) (sg : storage) : res Z :=
  if s <? Z.min 1 (n - 1) then Err ValueError else
  match sg with RAM | DISK => if n <? 1 then Err ValueError else Ok (Z.min s (n - 1)) | _ => Err ValueError end.

Definition stream_tab (n s : Z) (sg : storage) : res (list outcome) :=
  do s' <- construct n s sg;
  do t <- tabulate n s';
  Ok (run (Z.to_nat (4*n*n + 20)) {| max_n := n; snapshots := s'; stg := sg; plan := tget t |} (mk (PInner KNone) 0 0 [] false)).
Definition stream_memo (n s : Z) (sg : storage) : res (list outcome) :=
  do s' <- construct n s sg;
  Ok (run (Z.to_nat (4*n*n + 20)) {| max_n := n; snapshots := s'; stg := sg; plan := memo (Z.to_nat (2*n + 4)) |} (mk (PInner KNone) 0 0 [] false)).

