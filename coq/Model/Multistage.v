(* MultistageCheckpointSchedule (multistage.py:134-309) and allocate_snapshots (multistage.py:32-131).
   The generator is a program-counter machine: one pc per yield site; `snaps` is the checkpoint stack, top first.
   The labels (self._storage) are a list; position d of the stack is labelled nth d. *)
From Coq Require Import ZArith List Bool.
Require Import Actions NAdvance.
Import ListNotations.
Open Scope Z_scope.

Definition nadv (n s : Z) (t : traj) : res Z :=
  match n_advance n s t with NOk a => Ok a | NValueError => Err ValueError | NOutOfFuel => Err OutOfFuel end.

Inductive pc := PFwdLoop | PFwdLast | PEndFwd | PRevHead | PAfterCopy | PInner | PAdj | PRevAct | PDone | PFinished.
Record st := { pcv : pc; n_ : Z; r_ : Z; snaps : list Z; exhausted : bool }.
Record cfg := { max_n : Z; labels : list storage; tr : traj }.
Definition total (c : cfg) := Z.of_nat (length (labels c)).
Definition label (c : cfg) (d : nat) : res storage := match nth_error (labels c) d with Some l => Ok l | None => Err IndexError end.
Definition mk p n r sn e := {| pcv := p; n_ := n; r_ := r; snaps := sn; exhausted := e |}.

Fixpoint resume (fuel : nat) (c : cfg) (s : st) : st * outcome :=
  match fuel with O => (s, Raise OutOfFuel) | S f =>
  let free := total c - len (snaps s) in
  let push_fwd (h : Z) (next : pc) :=
      match nadv (h - n_ s) free (tr c) with
      | Err e => (s, Raise e)
      | Ok a => if len (snaps s) >=? total c then (s, Raise RuntimeError) else
                 match label c (length (snaps s)) with Err e => (s, Raise e) | Ok lb =>
                 (mk next (n_ s + a) (r_ s) (n_ s :: snaps s) false, Yield (Forward (n_ s) (n_ s + a) true false lb)) end end in
  match pcv s with
  | PFwdLoop =>
    if n_ s <? max_n c - 1 then push_fwd (max_n c) PFwdLoop
    else if negb (n_ s =? max_n c - 1) then (s, Raise RuntimeError)
    else (mk PFwdLast (n_ s + 1) (r_ s) (snaps s) false, Yield (Forward (n_ s) (n_ s + 1) false true WORK))
  | PFwdLast => (mk PEndFwd (n_ s) (r_ s) (snaps s) false, Yield EndForward)
  | PEndFwd => (mk PRevHead (n_ s) (r_ s + 1) (snaps s) false, Yield (Reverse (n_ s) (n_ s - 1) true))
  | PRevHead =>
    if r_ s <? max_n c then
      match snaps s with
      | [] => (s, Raise RuntimeError)
      | cp :: rest =>
        match label c (length rest) with Err e => (s, Raise e) | Ok lb =>
        if cp =? max_n c - r_ s - 1 then (mk PAdj cp (r_ s) rest false, Yield (Move cp lb WORK))
        else (mk PAfterCopy cp (r_ s) (snaps s) false, Yield (Copy cp lb WORK)) end
      end
    else if negb (r_ s =? max_n c) then (s, Raise RuntimeError)
    else match snaps s with [] => (mk PDone (n_ s) (r_ s) [] true, Yield EndReverse) | _ => (s, Raise RuntimeError) end
  | PAfterCopy =>
    match nadv (max_n c - r_ s - n_ s) (free + 1) (tr c) with
    | Err e => (s, Raise e)
    | Ok a => (mk PInner (n_ s + a) (r_ s) (snaps s) false, Yield (Forward (n_ s) (n_ s + a) false false WORK)) end
  | PInner =>
    if n_ s <? max_n c - r_ s - 1 then push_fwd (max_n c - r_ s) PInner
    else if negb (n_ s =? max_n c - r_ s - 1) then (s, Raise RuntimeError)
    else resume f c (mk PAdj (n_ s) (r_ s) (snaps s) false)
  | PAdj => (mk PRevAct (n_ s + 1) (r_ s) (snaps s) false, Yield (Forward (n_ s) (n_ s + 1) false true WORK))
  | PRevAct => (mk PRevHead (n_ s) (r_ s + 1) (snaps s) false, Yield (Reverse (n_ s) (n_ s - 1) true))
  | PDone | PFinished => (s, StopIteration)
  end end.
(* a resumption that raises or returns finishes the generator *)
Definition next (c : cfg) (s : st) : st * outcome :=
  let '(s', o) := resume 3 c s in
  match o with Yield _ => (s', o) | _ => (mk PFinished (n_ s') (r_ s') (snaps s') (exhausted s'), o) end.
Fixpoint run (fuel : nat) (c : cfg) (s : st) : list outcome :=
  match fuel with O => [] | S f => let '(s', o) := next c s in match o with Yield a => o :: run f c s' | _ => [o] end end.
Definition init := mk PFwdLoop 0 0 [] false.
Definition fuel_for (n : Z) := Z.to_nat (3*n*n + 20).

(* ---- allocate_snapshots: dry run, weights per stack slot, top-k (stable, descending) to RAM ---- *)
Fixpoint bump (w : list Z) (i : nat) : list Z := match w, i with [], _ => [] | x :: r, O => (x+1) :: r | x :: r, S j => x :: bump r j end.
Fixpoint weigh (acts : list outcome) (depth : Z) (w : list Z) : res (list Z * Z) :=
  match acts with
  | [] => Ok (w, depth)
  | Yield (Forward _ _ true _ _) :: r => let d := depth + 1 in if d >=? Z.of_nat (length w) then Err RuntimeError else weigh r d (bump w (Z.to_nat d))
  | Yield (Copy _ _ _) :: r => if depth <? 0 then Err RuntimeError else weigh r depth (bump w (Z.to_nat depth))
  | Yield (Move _ _ t) :: r => if depth <? 0 then Err RuntimeError else
        weigh r (match t with WORK => depth - 1 | _ => depth end) (bump w (Z.to_nat depth))
  | Yield _ :: r => weigh r depth w
  | Raise e :: _ => Err e
  | StopIteration :: r => weigh r depth w
  end.
(* stable sort of (index, weight) by weight descending (Python sorted(..., reverse=True) keeps the original order of equal keys) *)
Fixpoint ins (x : nat * Z) (l : list (nat * Z)) : list (nat * Z) :=
  match l with [] => [x] | y :: r => if snd y <=? snd x then x :: l else y :: ins x r end.
Definition sort_desc (l : list (nat * Z)) := fold_right ins [] l.
Definition allocate (n ram disk : Z) (t : traj) : res (list Z * list storage) :=
  let ram := Z.min ram (n - 1) in let disk := Z.min disk (n - 1) in
  let sn := Z.min (ram + disk) (n - 1) in
  let w0 := repeat 0 (Z.to_nat sn) in
  let acts := run (fuel_for n) {| max_n := n; labels := repeat DISK (Z.to_nat sn); tr := t |} init in
  match weigh acts (-1) w0 with
  | Err e => Err e
  | Ok (w, _) =>
    let idx := map fst (firstn (Z.to_nat ram) (sort_desc (combine (seq 0 (length w)) w))) in
    Ok (w, map (fun i => if existsb (Nat.eqb i) idx then RAM else DISK) (seq 0 (length w))) end.

(* constructor (trajectory is one of the two documented strings; other strings are outside the model) *)
Definition construct (n ram disk : Z) (tj : traj) : res cfg :=
  if n <? 1 then Err ValueError else
  let ram' := Z.min ram (n - 1) in let disk' := Z.min disk (n - 1) in
  if ram' =? 0 then Ok {| max_n := n; labels := repeat DISK (Z.to_nat disk'); tr := tj |}
  else if disk' =? 0 then Ok {| max_n := n; labels := repeat RAM (Z.to_nat ram'); tr := tj |}
  else do al <- allocate n ram disk tj; Ok {| max_n := n; labels := snd al; tr := tj |}.

Definition count_st (x : storage) (l : list storage) := Z.of_nat (length (filter (st_eqb x) l)).
