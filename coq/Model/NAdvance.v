(* n_advance (multistage.py:375-451), line by line; `//` is Z.div (operands non-negative), the while loop is fuelled. *)
From Coq Require Import ZArith List Bool.
Open Scope Z_scope.

(* ---------- the model of n_advance (multistage.py:375-451) ---------- *)
Inductive traj := TMaximum | TRevolve.
Fixpoint find_t (fuel : nat) (n s t b2 b1 b0 : Z) : option (Z*Z*Z*Z) :=
  if (b1 >=? n) || (n >? b0) then
    match fuel with
    | O => None
    | S f => find_t f n s (t+1) b1 b0 ((b0 * (s + (t+1))) / (t+1))
    end
  else Some (t, b2, b1, b0).

Inductive nres := NOk (a : Z) | NValueError | NOutOfFuel.
Definition n_advance (n snaps : Z) (tr : traj) : nres :=
  if n <? 1 then NValueError else
  if snaps <=? 0 then NValueError else
  let s := Z.max (Z.min snaps (n-1)) 1 in
  if s =? 1 then NOk (n-1) else
  if s =? n-1 then NOk 1 else
  match find_t (Z.to_nat n) n s 2 1 (s+1) (((s+1)*(s+2))/2) with
  | None => NOutOfFuel
  | Some (t, b2, b1, b0) =>
    match tr with
    | TMaximum =>
      let bsm1tm2 := (b2 * s) / (s + t - 2) in
      if n <=? b1 + bsm1tm2 then NOk (n - b1 + b2) else
      let bsm1tm1 := (b1 * s) / (s + t - 1) in
      let bsm2tm1 := (bsm1tm1 * (s-1)) / (s + t - 2) in
      if n <=? b1 + bsm2tm1 + bsm1tm2 then NOk (b2 + bsm1tm2)
      else if n <=? b1 + bsm1tm1 + bsm2tm1 then NOk (n - bsm1tm1 - bsm2tm1)
      else NOk b1
    | TRevolve =>
      let bsm1tm1 := (b1 * s) / (s + t - 1) in
      let bsm2tm1 := (bsm1tm1 * (s-1)) / (s + t - 2) in
      if n <=? b1 + bsm2tm1 then NOk b2
      else if n <? b1 + bsm1tm1 + bsm2tm1 then NOk (n - bsm1tm1 - bsm2tm1)
      else NOk b1
    end
  end.

