(* schedule.py base class (finalize) and the four online classes: NoneCheckpointSchedule, SingleMemoryStorageSchedule,
   SingleDiskStorageSchedule(move_data) (basic_schedules.py), TwoLevelCheckpointSchedule (twolevel_binomial.py). *)
From Coq Require Import ZArith List Bool.
Require Import Actions NAdvance Multistage.
Import ListNotations.
Open Scope Z_scope.

(* ---- schedule.py base class ---- *)
Record base := { n_ : Z; r_ : Z; max_n_ : option Z }.
Definition finalize (k : Z) (b : base) : base * option exn :=
  if k <? 1 then (b, Some ValueError) else
  match max_n_ b with
  | None => if n_ b >=? k then ({| n_ := k; r_ := r_ b; max_n_ := Some k |}, None) else (b, Some RuntimeError)
  | Some m => if negb (n_ b =? k) || negb (m =? k) then (b, Some RuntimeError) else (b, None)
  end.

(* ---- the four online classes as one sum type of generator states ---- *)
Inductive kls := KNone_ | KMem | KDisk (move : bool) | KTwo (period bsnaps : Z) (bst : storage) (tr : traj).
Inductive pc :=
 | PStart | PFwd | PAfterEndFwd | PFinished
 | PMemRev                                   (* SingleMemory: inside while True *)
 | PDiskLoop | PDiskAfterLoad (n1 n0 : Z)    (* SingleDisk *)
 | PTOuter | PTBlock (n0s : Z) | PTAfterCopy (n0s : Z) | PTInner (n0s : Z) | PTAfterPush (n0s p : Z) | PTAdj (n0s : Z) | PTRevAct (n0s : Z).
Record st := { k : kls; pcv : pc; b : base; snaps : list Z; exh : bool }.
Definition mk kl p n r m sn e := {| k := kl; pcv := p; b := {| n_ := n; r_ := r; max_n_ := m |}; snaps := sn; exh := e |}.
Definition set_pc (s : st) p := {| k := k s; pcv := p; b := b s; snaps := snaps s; exh := exh s |}.
Definition upd (s : st) p n r sn := {| k := k s; pcv := p; b := {| n_ := n; r_ := r; max_n_ := max_n_ (b s) |}; snaps := sn; exh := exh s |}.


Fixpoint resume (fuel : nat) (s : st) : st * outcome :=
  match fuel with O => (s, Raise OutOfFuel) | S f =>
  let n := n_ (b s) in let r := r_ (b s) in
  match k s, pcv s with
  | _, PFinished => (s, StopIteration)
  (* forward loops of the three basic schedules: "if max_n is not None: raise" then while max_n is None *)
  | KNone_, PStart | KMem, PStart | KDisk _, PStart =>
      match max_n_ (b s) with Some _ => (set_pc s PFinished, Raise RuntimeError) | None => resume f (set_pc s PFwd) end
  | KTwo _ _ _ _, PStart => resume f (set_pc s PFwd)
  | KNone_, PFwd =>
      match max_n_ (b s) with
      | None => (upd s PFwd (n + maxsize) r [], Yield (Forward n (n + maxsize) false false NONE))
      | Some _ => ({| k := k s; pcv := PFinished; b := b s; snaps := []; exh := true |}, Yield EndForward) end
  | KMem, PFwd =>
      match max_n_ (b s) with
      | None => (upd s PFwd (n + maxsize) r [], Yield (Forward n (n + maxsize) false true WORK))
      | Some _ => (set_pc s PMemRev, Yield EndForward) end
  | KMem, PMemRev =>
      match max_n_ (b s) with None => (set_pc s PFinished, Raise TypeError) | Some m =>
      if r =? 0 then (upd s PMemRev n m [], Yield (Reverse m 0 false))
      else if r =? m then (upd s PMemRev n 0 [], Yield EndReverse)
      else (set_pc s PFinished, Raise RuntimeError) end
  | KDisk _, PFwd =>
      match max_n_ (b s) with
      | None => (upd s PFwd (n + 1) r [], Yield (Forward n (n + 1) false true DISK))
      | Some _ => (set_pc s PDiskLoop, Yield EndForward) end
  | KDisk mv, PDiskLoop =>
      match max_n_ (b s) with None => (set_pc s PFinished, Raise TypeError) | Some m =>
      if r <? m then
        let n1 := m - r in let n0 := n1 - 1 in
        (upd s (PDiskAfterLoad n1 n0) n0 r [], Yield ((if mv then Move else Copy) n0 DISK WORK))
      else if r >? m then (set_pc s PFinished, Raise RuntimeError)
      else if mv then ({| k := k s; pcv := PFinished; b := b s; snaps := []; exh := true |}, Yield EndReverse)
      else (upd s PDiskLoop n 0 [], Yield EndReverse) end
  | KDisk _, PDiskAfterLoad n1 n0 =>
      match max_n_ (b s) with None => (set_pc s PFinished, Raise TypeError) | Some m =>
      (upd s PDiskLoop n (m - n0) [], Yield (Reverse n1 n0 true)) end
  (* TwoLevel *)
  | KTwo p _ _ _, PFwd =>
      match max_n_ (b s) with
      | None => (upd s PFwd (n + p) r [], Yield (Forward n (n + p) true false DISK))
      | Some _ => (set_pc s PTOuter, Yield EndForward) end
  | KTwo p _ _ _, PTOuter =>
      match max_n_ (b s) with None => (set_pc s PFinished, Raise TypeError) | Some m =>
      if r <? m then
        let nn := m - r - 1 in let n0s := (nn / p) * p in let n1s := Z.min (n0s + p) m in
        if negb (r =? m - n1s) then (set_pc s PFinished, Raise RuntimeError)
        else resume f (upd s (PTBlock n0s) n r [n0s])
      else if negb (r =? m) then (set_pc s PFinished, Raise RuntimeError)
      else (upd s PTOuter n 0 (snaps s), Yield EndReverse) end
  | KTwo p bs bst tr, PTBlock n0s =>
      match max_n_ (b s) with None => (set_pc s PFinished, Raise TypeError) | Some m =>
      if r <? m - n0s then
        match snaps s with [] => (set_pc s PFinished, Raise RuntimeError) | cp :: rest =>
          if cp =? m - r - 1 then
            (upd s (PTAdj n0s) cp r rest, Yield (if cp =? n0s then Copy cp DISK WORK else Move cp bst WORK))
          else (upd s (PTAfterCopy n0s) cp r (snaps s), Yield (Copy cp (if cp =? n0s then DISK else bst) WORK)) end
      else if negb (r =? m - n0s) then (set_pc s PFinished, Raise RuntimeError)
      else match snaps s with [] => resume f (set_pc s PTOuter) | _ => (set_pc s PFinished, Raise RuntimeError) end end
  | KTwo p bs bst tr, PTAfterCopy n0s =>
      match max_n_ (b s) with None => (set_pc s PFinished, Raise TypeError) | Some m =>
      match nadv (m - r - n) (bs + 1 - len (snaps s) + 1) tr with
      | Err e => (set_pc s PFinished, Raise e)
      | Ok a => (upd s (PTInner n0s) (n + a) r (snaps s), Yield (Forward n (n + a) false false WORK)) end end
  | KTwo p bs bst tr, PTAfterPush n0s q =>
      if len (snaps s) >=? bs + 1 then (set_pc s PFinished, Raise RuntimeError)
      else resume f (upd s (PTInner n0s) n r (q :: snaps s))
  | KTwo p bs bst tr, PTInner n0s =>
      match max_n_ (b s) with None => (set_pc s PFinished, Raise TypeError) | Some m =>
      if n <? m - r - 1 then
        match nadv (m - r - n) (bs + 1 - len (snaps s)) tr with
        | Err e => (set_pc s PFinished, Raise e)
        | Ok a => (upd s (PTAfterPush n0s n) (n + a) r (snaps s), Yield (Forward n (n + a) true false bst)) end
      else if negb (n =? m - r - 1) then (set_pc s PFinished, Raise RuntimeError)
      else resume f (set_pc s (PTAdj n0s)) end
  | KTwo _ _ _ _, PTAdj n0s => (upd s (PTRevAct n0s) (n + 1) r (snaps s), Yield (Forward n (n + 1) false true WORK))
  | KTwo _ _ _ _, PTRevAct n0s => (upd s (PTBlock n0s) n (r + 1) (snaps s), Yield (Reverse n (n - 1) true))
  | _, _ => (set_pc s PFinished, Raise RuntimeError)
  end end.

(* a resumption that raised or stopped finishes the generator *)
Definition next (s : st) : st * outcome :=
  let '(s', o) := resume 4 s in
  match o with Yield _ => (s', o) | _ => (set_pc s' PFinished, o) end.

Definition is_exhausted (s : st) : bool :=
  match k s with
  | KNone_ => exh s
  | KMem | KTwo _ _ _ _ => false
  | KDisk _ => exh s
  end.

(* constructor: TwoLevel validates period and storage *)
Definition construct (kl : kls) : res st :=
  match kl with
  | KTwo p _ bst _ => if p <? 1 then Err ValueError else match bst with RAM | DISK => Ok (mk kl PStart 0 0 None [] false) | _ => Err ValueError end
  | _ => Ok (mk kl PStart 0 0 None [] false)
  end.

Inductive op := Next | Fin (kk : Z).
Inductive obs := ONext (o : outcome) (n r : Z) (m : option Z) (ex : bool) | OFin (e : option exn) (n r : Z) (m : option Z) (ex : bool).
Fixpoint run_ops (s : st) (ops : list op) : list obs :=
  match ops with [] => []
  | Next :: rest => let '(s', o) := next s in ONext o (n_ (b s')) (r_ (b s')) (max_n_ (b s')) (is_exhausted s') :: run_ops s' rest
  | Fin kk :: rest => let '(b', e) := finalize kk (b s) in
      let s' := {| k := k s; pcv := pcv s; b := b'; snaps := snaps s; exh := exh s |} in
      OFin e (n_ b') (r_ b') (max_n_ b') (is_exhausted s') :: run_ops s' rest
  end.

