(* hrevolve_sequences/hrevolve.py: get_hopt_table (K = 2), hrevolve_aux, hrevolve_recurse, hrevolve.
   Costs: exact integers or +infinity. *)
From Coq Require Import ZArith List Bool.
Require Import Actions Ops.
Import ListNotations.
Open Scope Z_scope.

(* ---------- costs with infinity ---------- *)
Inductive cost := Fin (z : Z) | Inf.
Definition cadd a b := match a, b with Fin x, Fin y => Fin (x+y) | _, _ => Inf end.
Definition clt a b := match a, b with Fin x, Fin y => x <? y | Fin _, Inf => true | Inf, _ => false end.
Definition cle a b := negb (clt b a).
Definition cmin a b := if clt b a then b else a.   (* Python min: first minimal element *)
Fixpoint cmin_list (l : list cost) (d : cost) : cost :=
  match l with [] => d | x :: r => fold_left cmin r x end.
(* argmin: LAST index of the minimum, 1-based (basic_functions.py:63-84) *)
Fixpoint argmin_aux (l : list cost) (i : Z) (best : Z) (m : cost) : Z :=
  match l with [] => 1 + best
  | x :: r => if cle x m then argmin_aux r (i+1) i x else argmin_aux r (i+1) best m end.
Definition argmin (l : list cost) : Z := match l with [] => 1 | x :: _ => argmin_aux l 0 0 x end.

(* ---------- 2-level tables  T[k][l][m], stored as functional lists ---------- *)
Definition tab := list (list cost).       (* [l][m] *)
Definition get (t : tab) (l m : Z) : res cost :=
  if (l <? 0) || (m <? 0) then Err IndexError else
  match nth_error t (Z.to_nat l) with None => Err IndexError
  | Some row => match nth_error row (Z.to_nat m) with None => Err IndexError | Some c => Ok c end end.
Fixpoint upd_list {A} (l : list A) (i : nat) (v : A) : option (list A) :=
  match l, i with [], _ => None | _ :: r, O => Some (v :: r)
  | x :: r, S i' => match upd_list r i' v with None => None | Some r' => Some (x :: r') end end.
Definition set (t : tab) (l m : Z) (v : cost) : res tab :=
  if (l <? 0) || (m <? 0) then Err IndexError else
  match nth_error t (Z.to_nat l) with None => Err IndexError
  | Some row => match upd_list row (Z.to_nat m) v with None => Err IndexError
     | Some row' => match upd_list t (Z.to_nat l) row' with None => Err IndexError | Some t' => Ok t' end end end.
Definition mk (lmax c : Z) : tab := repeat (repeat Inf (Z.to_nat (c+1))) (Z.to_nat (lmax+1)).

Fixpoint for_ {S} (lo : Z) (cnt : nat) (s : S) (f : Z -> S -> res S) : res S :=
  match cnt with O => Ok s | S c => do s' <- f lo s; for_ (lo+1) c s' f end.
Definition range_for {S} (lo hi : Z) (s : S) (f : Z -> S -> res S) : res S := for_ lo (Z.to_nat (hi - lo)) s f.
Record tabs := { optp0 : tab; opt0 : tab; optp1 : tab; opt1 : tab }.
(* get_hopt_table(lmax, cvect, wvect, rvect, ub, uf), K = 2 ; parameter NAMES as in the code *)
Definition get_hopt_table (lmax c0 c1 w0 w1 r0 r1 ub uf : Z) : res tabs :=
  let T := {| optp0 := mk lmax c0; opt0 := mk lmax c0; optp1 := mk lmax c1; opt1 := mk lmax c1 |} in
  (* borders k = 0 *)
  do T <- range_for 0 (c0+1) T (fun m T => do a <- set (opt0 T) 0 m (Fin ub); do b <- set (optp0 T) 0 m (Fin ub);
           Ok {| optp0 := b; opt0 := a; optp1 := optp1 T; opt1 := opt1 T |});
  do T <- range_for 0 (c0+1) T (fun m T => if (m =? 0) || (lmax <? 1) then Ok T else
           let v := Fin (uf + 2*ub + r0) in
           do b <- set (optp0 T) 1 m v; do a <- set (opt0 T) 1 m (cadd (Fin w0) v);
           Ok {| optp0 := b; opt0 := a; optp1 := optp1 T; opt1 := opt1 T |});
  (* borders k = 1 *)
  do T <- range_for 0 (c1+1) T (fun m T => do a <- set (opt1 T) 0 m (Fin ub); do b <- set (optp1 T) 0 m (Fin ub);
           Ok {| optp0 := optp0 T; opt0 := opt0 T; optp1 := b; opt1 := a |});
  do T <- range_for 0 (c1+1) T (fun m T => if lmax <? 1 then Ok T else
           let v := Fin (uf + 2*ub + r0) in
           do b <- set (optp1 T) 1 m v; do a <- set (opt1 T) 1 m (cadd (Fin w0) v);
           Ok {| optp0 := optp0 T; opt0 := opt0 T; optp1 := b; opt1 := a |});
  (* fill K = 0 *)
  do T <- range_for 2 (lmax+1) T (fun l T =>
           let v := Fin ((l+1)*ub + (l*(l+1)/2)*uf + l*r0) in
           do b <- set (optp0 T) l 1 v; do a <- set (opt0 T) l 1 (cadd (Fin w0) v);
           Ok {| optp0 := b; opt0 := a; optp1 := optp1 T; opt1 := opt1 T |});
  do T <- range_for 2 (c0+1) T (fun m T => range_for 2 (lmax+1) T (fun l T =>
           do cands <- map_res (fun j => do x <- get (opt0 T) (l-j) (m-1); do y <- get (optp0 T) (j-1) m;
                                        Ok (cadd (cadd (cadd (Fin (j*uf)) x) (Fin r0)) y)) (zrange 1 l);
           do last <- get (optp0 T) l 1;
           let v := cmin_list (cands ++ [last]) Inf in
           do b <- set (optp0 T) l m v; do a <- set (opt0 T) l m (cadd (Fin w0) v);
           Ok {| optp0 := b; opt0 := a; optp1 := optp1 T; opt1 := opt1 T |}));
  (* fill K = 1 *)
  do T <- range_for 2 (lmax+1) T (fun l T => do x <- get (opt0 T) l c0; do a <- set (opt1 T) l 0 x;
           Ok {| optp0 := optp0 T; opt0 := opt0 T; optp1 := optp1 T; opt1 := a |});
  range_for 1 (c1+1) T (fun m T => range_for 1 (lmax+1) T (fun l T =>
           do low <- get (opt0 T) l c0;
           do cands <- map_res (fun j => do x <- get (opt1 T) (l-j) (m-1); do y <- get (optp1 T) (j-1) m;
                                        Ok (cadd (cadd (cadd (Fin (j*uf)) x) (Fin r1)) y)) (zrange 1 l);
           let v := cmin_list (low :: cands) Inf in
           do b <- set (optp1 T) l m v;
           do a <- set (opt1 T) l m (cmin low (cadd (Fin w1) v));
           Ok {| optp0 := optp0 T; opt0 := opt0 T; optp1 := b; opt1 := a |})).

Definition is_discard (o : option op) := match o with Some (OD _ _) => true | _ => false end.
Record hp := { c0v : Z; c1v : Z; w0v : Z; w1v : Z; r0v : Z; r1v : Z; ufv : Z; ubv : Z }.
Definition hoptp (T : tabs) (k : Z) := if k =? 0 then optp0 T else optp1 T.
Definition hopt (T : tabs) (k : Z) := if k =? 0 then opt0 T else opt1 T.
Definition cvec (p : hp) (k : Z) := if k =? 0 then c0v p else c1v p.
Definition wvec (p : hp) (k : Z) := if k =? 0 then w0v p else w1v p.
Definition rvec (p : hp) (k : Z) := if k =? 0 then r0v p else r1v p.

Definition base0 := [OWF 0 1; OF 0 1; OB 1 0; ODF 0 1].
Fixpoint cm1_loop (cnt : nat) (l index : Z) : list op :=   (* for index in range(l-1, -1, -1) *)
  match cnt with O => [] | S c =>
    (if index =? l - 1 then [] else [OR 0 0]) ++ (if index + 1 =? 0 then [] else [OF 0 (index+1)])
     ++ [OWF 0 (index+2); OF (index+1) (index+2); OB (index+2) (index+1); ODF 0 (index+2)] ++ cm1_loop c l (index-1) end.

Fixpoint aux (fuel : nat) (p : hp) (T : tabs) (l K cmem : Z) {struct fuel} : res (list op) :=
  match fuel with O => Err OutOfFuel | S f =>
  if cmem =? 0 then Err KeyError else
  if l =? 0 then Ok base0 else
  if l =? 1 then
    let buf := (w0v p + r0v p <? rvec p K) in
    Ok ((if buf then [OW 0 0] else []) ++ [OF 0 1; OWF 0 2; OF 1 2; OB 2 1; ODF 0 2]
        ++ [if buf then OR 0 0 else OR K 0] ++ [OWF 0 1; OF 0 1; OB 1 0; ODF 0 1; OD 0 0])
  else if (K =? 0) && (cmem =? 1) then
    Ok (cm1_loop (Z.to_nat l) l (l-1) ++ [OR 0 0; OWF 0 1; OF 0 1; OB 1 0; ODF 0 1; OD 0 0])
  else if K =? 0 then
    do lm <- map_res (fun j => do x <- get (opt0 T) (l-j) (cmem-1); do y <- get (optp0 T) (j-1) cmem;
                               Ok (cadd (cadd (cadd (Fin (j * ufv p)) x) (Fin (r0v p))) y)) (zrange 1 l);
    do ref <- get (optp0 T) l 1;
    if clt (cmin_list lm Inf) ref then
      let jmin := argmin lm in
      do s1 <- recurse f p T (l - jmin) 0 (cmem-1);
      do s2 <- aux f p T (jmin-1) 0 cmem;
      let sq := [OF 0 jmin] ++ shift jmin s1 ++ [OR 0 0] ++ s2 in
      Ok (if is_discard (last_op sq) then sq else sq ++ [OD 0 0])
    else aux f p T l 0 1
  else
    do lm <- map_res (fun j => do x <- get (hopt T K) (l-j) (cmem-1); do y <- get (hoptp T K) (j-1) cmem;
                               Ok (cadd (cadd (cadd (Fin (j * ufv p)) x) (Fin (rvec p K))) y)) (zrange 1 l);
    do ref <- get (hopt T (K-1)) l (cvec p (K-1));
    if clt (cmin_list lm Inf) ref then
      let jmin := argmin lm in
      do s1 <- recurse f p T (l - jmin) K (cmem-1);
      do s2 <- aux f p T (jmin-1) K cmem;
      Ok ([OF 0 jmin] ++ shift jmin s1 ++ [OR K 0] ++ s2)
    else recurse f p T l (K-1) (cvec p (K-1))
  end
with recurse (fuel : nat) (p : hp) (T : tabs) (l K cmem : Z) {struct fuel} : res (list op) :=
  match fuel with O => Err OutOfFuel | S f =>
  if l =? 0 then Ok base0 else
  if (K =? 0) && (cmem =? 0) then Err KeyError else
  if l =? 1 then Ok [OW 0 0; OF 0 1; OWF 0 2; OF 1 2; OB 2 1; ODF 0 2; OR 0 0; OWF 0 1; OF 0 1; OB 1 0; ODF 0 1; OD 0 0] else
  if K =? 0 then do s <- aux f p T l 0 cmem; Ok (OW 0 0 :: s) else
  do a <- get (hoptp T K) l cmem; do b <- get (hopt T (K-1)) l (cvec p (K-1));
  if clt (cadd (Fin (wvec p K)) a) b then do s <- aux f p T l K cmem; Ok (OW K 0 :: s)
  else recurse f p T l (K-1) (cvec p (K-1))
  end.

(* hrevolve(l, cvect, wvect, rvect, fwd, bwd) *)
Definition hrevolve (l ram disk wd rd uf ub : Z) : res (list op) :=
  let p := {| c0v := ram; c1v := disk; w0v := 0; w1v := wd; r0v := 0; r1v := rd; ufv := uf; ubv := ub |} in
  do T <- get_hopt_table l ram disk 0 wd 0 rd ub uf;
  recurse (Z.to_nat (4*l + 8)) p T l 1 disk.

