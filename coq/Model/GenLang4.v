(* The generator language for RevolveCheckpointSchedule._iterator (hrevolve.py), the converter of the four Revolve-family classes:
   the operation list self._schedule with Python indexing (a negative index counts from the end), _convert_action read through
   ConvKinds.convert_spec, integer / boolean / storage / type-name locals, the set `snapshots`.  `run` resumes a suspended generator
   up to its next yield, exception or end. *)
From Coq Require Import ZArith List Bool.
Require Import Actions Ops Online RevConv ConvKinds.
Import ListNotations.
Open Scope Z_scope.

Inductive zloc := Li | Ln_0 | Ln_1 | Lw_n0 | Ld_n0.                  (* i, n_0, n_1, w_n0, d_n0 *)
Inductive bloc := Lwrite_ics | Ladj_deps.
Inductive sloc := Lstorage | Lw_storage.                             (* storage, w_storage: a StorageType or None *)
Inductive kloc := Lcp_action | Lw_cp_action | Ld_cp_action.
Definition zloc_eqb (a b : zloc) := match a, b with Li, Li | Ln_0, Ln_0 | Ln_1, Ln_1 | Lw_n0, Lw_n0 | Ld_n0, Ld_n0 => true | _, _ => false end.
Definition bloc_eqb (a b : bloc) := match a, b with Lwrite_ics, Lwrite_ics | Ladj_deps, Ladj_deps => true | _, _ => false end.
Definition sloc_eqb (a b : sloc) := match a, b with Lstorage, Lstorage | Lw_storage, Lw_storage => true | _, _ => false end.
Definition kloc_eqb (a b : kloc) := match a, b with Lcp_action, Lcp_action | Lw_cp_action, Lw_cp_action | Ld_cp_action, Ld_cp_action => true | _, _ => false end.

Inductive zexp := ZC (z : Z) | ZN | ZR | ZMax | ZL (x : zloc) | ZLenOps | ZLenSet | ZAdd (a b : zexp) | ZSub (a b : zexp).
Inductive bexp :=
 | BMaxIsNone | BV (x : bloc)
 | BEq (a b : zexp) | BNe (a b : zexp) | BLt (a b : zexp) | BGt (a b : zexp)
 | BKindIs (x : kloc) (k : okind) | BKindIsNot (x : kloc) (k : okind)
 | BStNe (a b : sloc)                                                (* w_storage != storage *)
 | BOr (a b : bexp).
Inductive bval := BC (b : bool) | BL (x : bloc).
Inductive sval := SC (s : storage) | SL (x : sloc).
Inductive aexp :=
 | AForward (n0 n1 : zexp) (wi wa : bval) (st : sval) | AReverse (n1 n0 : zexp) (c : bool)
 | ACopy (n : zexp) (src dst : sval) | AMove (n : zexp) (src dst : sval) | AEndForward | AEndReverse.
Inductive stmt :=
 | SSkip | SSeq (a b : stmt) | SIf (c : bexp) (a b : stmt) | SWhile (c : bexp) (body : stmt)
 | SSetN (e : zexp) | SSetR (e : zexp) | SSetZ (x : zloc) (e : zexp) | SSetB (x : bloc) (v : bool) | SSetS (x : sloc) (v : option storage) | SSetX (v : bool)
 | SSetNew                                                           (* snapshots = set() *)
 | SSetAdd (e : zexp) | SSetRemove (e : zexp)
 | SConv (k : kloc) (n0 : zloc) (n1 : option zloc) (st : sloc) (idx : zexp)     (* k, (n0, n1 | _, st) = _convert_action(self._schedule[idx]) *)
 | SYield (a : aexp) | SRaise (e : exn).

Record gst := { gb : base; gx : bool; gset : list Z; gz : zloc -> option Z; gbl : bloc -> option bool; gs : sloc -> option (option storage); gk : kloc -> option okind }.

(* self._schedule[idx]: Python list indexing *)
Definition py_index (ops : list Ops.op) (idx : Z) : res Ops.op :=
  let l := len ops in
  let j := if idx <? 0 then idx + l else idx in
  if (j <? 0) || (j >=? l) then Err IndexError else match nth_error ops (Z.to_nat j) with Some o => Ok o | None => Err IndexError end.

Fixpoint zeval (ops : list Ops.op) (e : zexp) (g : gst) : res Z :=
  match e with
  | ZC z => Ok z | ZN => Ok (Online.n_ (gb g)) | ZR => Ok (Online.r_ (gb g))
  | ZMax => match Online.max_n_ (gb g) with Some m => Ok m | None => Err TypeError end
  | ZL x => match gz g x with Some v => Ok v | None => Err UnboundLocalError end
  | ZLenOps => Ok (len ops) | ZLenSet => Ok (len (gset g))
  | ZAdd a b => do x <- zeval ops a g; do y <- zeval ops b g; Ok (x + y)
  | ZSub a b => do x <- zeval ops a g; do y <- zeval ops b g; Ok (x - y)
  end.
Definition cmp2 (ops : list Ops.op) (f : Z -> Z -> bool) (a b : zexp) (g : gst) : res bool := do x <- zeval ops a g; do y <- zeval ops b g; Ok (f x y).
Definition kget (g : gst) (x : kloc) : res okind := match gk g x with Some k => Ok k | None => Err UnboundLocalError end.
Definition sget (g : gst) (x : sloc) : res (option storage) := match gs g x with Some v => Ok v | None => Err UnboundLocalError end.
Fixpoint beval (ops : list Ops.op) (t : bexp) (g : gst) : res bool :=
  match t with
  | BMaxIsNone => Ok (match Online.max_n_ (gb g) with None => true | Some _ => false end)
  | BV x => match gbl g x with Some v => Ok v | None => Err UnboundLocalError end
  | BEq a b => cmp2 ops Z.eqb a b g | BNe a b => cmp2 ops (fun x y => negb (x =? y)) a b g
  | BLt a b => cmp2 ops Z.ltb a b g | BGt a b => cmp2 ops Z.gtb a b g
  | BKindIs x k => do v <- kget g x; Ok (okind_eqb v k)
  | BKindIsNot x k => do v <- kget g x; Ok (negb (okind_eqb v k))
  | BStNe a b => do x <- sget g a; do y <- sget g b; Ok (negb (st_opt_eqb x y))
  | BOr a b => do x <- beval ops a g; if x then Ok true else beval ops b g          (* `or` evaluates its right operand only if needed *)
  end.
Definition bveval (g : gst) (v : bval) : res bool := match v with BC b => Ok b | BL x => match gbl g x with Some b => Ok b | None => Err UnboundLocalError end end.
(* a storage argument of an action: a local holding None is passed on as it is; the model prints it as NONE (RevConv.conv1) *)
Definition sveval (g : gst) (v : sval) : res storage :=
  match v with SC s => Ok s | SL x => do o <- sget g x; Ok (match o with Some s => s | None => NONE end) end.
Definition aeval (ops : list Ops.op) (a : aexp) (g : gst) : res action :=
  match a with
  | AForward a0 a1 wi wa st => do x <- zeval ops a0 g; do y <- zeval ops a1 g; do i <- bveval g wi; do j <- bveval g wa; do z <- sveval g st; Ok (Forward x y i j z)
  | AReverse a1 a0 c => do x <- zeval ops a1 g; do y <- zeval ops a0 g; Ok (Reverse x y c)
  | ACopy n s d => do x <- zeval ops n g; do y <- sveval g s; do z <- sveval g d; Ok (Copy x y z)
  | AMove n s d => do x <- zeval ops n g; do y <- sveval g s; do z <- sveval g d; Ok (Move x y z)
  | AEndForward => Ok EndForward | AEndReverse => Ok EndReverse
  end.

Definition set_n (g : gst) (v : Z) : gst := {| gb := (Online.Build_base v (Online.r_ (gb g)) (Online.max_n_ (gb g))); gx := gx g; gset := gset g; gz := gz g; gbl := gbl g; gs := gs g; gk := gk g |}.
Definition set_r (g : gst) (v : Z) : gst := {| gb := (Online.Build_base (Online.n_ (gb g)) v (Online.max_n_ (gb g))); gx := gx g; gset := gset g; gz := gz g; gbl := gbl g; gs := gs g; gk := gk g |}.
Definition set_x (g : gst) (v : bool) : gst := {| gb := gb g; gx := v; gset := gset g; gz := gz g; gbl := gbl g; gs := gs g; gk := gk g |}.
Definition set_set (g : gst) (l : list Z) : gst := {| gb := gb g; gx := gx g; gset := l; gz := gz g; gbl := gbl g; gs := gs g; gk := gk g |}.
Definition set_z (g : gst) (x : zloc) (v : option Z) : gst := {| gb := gb g; gx := gx g; gset := gset g; gz := fun y => if zloc_eqb y x then v else gz g y; gbl := gbl g; gs := gs g; gk := gk g |}.
Definition set_b (g : gst) (x : bloc) (v : bool) : gst := {| gb := gb g; gx := gx g; gset := gset g; gz := gz g; gbl := fun y => if bloc_eqb y x then Some v else gbl g y; gs := gs g; gk := gk g |}.
Definition set_s (g : gst) (x : sloc) (v : option storage) : gst := {| gb := gb g; gx := gx g; gset := gset g; gz := gz g; gbl := gbl g; gs := fun y => if sloc_eqb y x then Some v else gs g y; gk := gk g |}.
Definition set_k (g : gst) (x : kloc) (v : okind) : gst := {| gb := gb g; gx := gx g; gset := gset g; gz := gz g; gbl := gbl g; gs := gs g; gk := fun y => if kloc_eqb y x then Some v else gk g y |}.

Inductive frame := FS (s : stmt) | FLoop (c : bexp) (body : stmt).

Fixpoint run (fuel : nat) (ops : list Ops.op) (K : list frame) (g : gst) : (list frame * gst) * outcome :=
  match fuel with O => (([], g), Raise OutOfFuel) | S f =>
  match K with
  | [] => (([], g), StopIteration)
  | FLoop t body :: K' =>
      match beval ops t g with Err e => (([], g), Raise e) | Ok true => run f ops (FS body :: FLoop t body :: K') g | Ok false => run f ops K' g end
  | FS s :: K' =>
      match s with
      | SSkip => run f ops K' g
      | SSeq a b => run f ops (FS a :: FS b :: K') g
      | SIf t a b => match beval ops t g with Err e => (([], g), Raise e) | Ok true => run f ops (FS a :: K') g | Ok false => run f ops (FS b :: K') g end
      | SWhile t body => run f ops (FLoop t body :: K') g
      | SSetN e => match zeval ops e g with Err e => (([], g), Raise e) | Ok v => run f ops K' (set_n g v) end
      | SSetR e => match zeval ops e g with Err e => (([], g), Raise e) | Ok v => run f ops K' (set_r g v) end
      | SSetZ x e => match zeval ops e g with Err e => (([], g), Raise e) | Ok v => run f ops K' (set_z g x (Some v)) end
      | SSetB x v => run f ops K' (set_b g x v)
      | SSetS x v => run f ops K' (set_s g x v)
      | SSetX v => run f ops K' (set_x g v)
      | SSetNew => run f ops K' (set_set g [])
      | SSetAdd e => match zeval ops e g with Err e => (([], g), Raise e) | Ok v => run f ops K' (set_set g (set_add v (gset g))) end
      | SSetRemove e => match zeval ops e g with Err e => (([], g), Raise e) | Ok v =>
            if existsb (Z.eqb v) (gset g) then run f ops K' (set_set g (filter (fun x => negb (x =? v)) (gset g))) else (([], g), Raise KeyError) end
      | SConv k n0 n1 st idx =>
          match zeval ops idx g with Err e => (([], g), Raise e) | Ok j =>
          match py_index ops j with Err e => (([], g), Raise e) | Ok o =>
          match convert_spec o with Err e => (([], g), Raise e) | Ok (kd, (a, b, sg)) =>
            let g1 := set_s (set_z (set_k g k kd) n0 (Some a)) st sg in
            run f ops K' (match n1 with Some x => set_z g1 x b | None => g1 end) end end end
      | SYield a => match aeval ops a g with Err e => (([], g), Raise e) | Ok act => ((K', g), Yield act) end
      | SRaise e => (([], g), Raise e)
      end
  end end.
