import subprocess, re, sys, os
os.chdir('/verif/coq')
# property -> list of (theorem name in Props, source module, source constant, comment)
PLAN = {
 'C01': [('C01_multistage_step','Inst','C05_multistage_step','Multistage (concrete n_advance): every resumption from a state satisfying the invariant yields an action the executor accepts, and re-establishes the invariant; never an exception'),
         ('C01_mixed_step','MixInv','step_ok','Mixed (abstract planner satisfying the five facts proved in MixDP): same'),
         ('C01_twolevel_step','TLInv','step_ok','TwoLevel after finalisation: same, across blocks and passes'),
         ('C01_revolve_stream','RevGen','revolve_stream_ok','Revolve: the whole converted stream is accepted by the executor with RAM budget cm')],
 'C05': [('C05_chain','Inst','C05_chain','work of the Multistage recursion = n + DP value = n + closed form (Griewank-Walther)'),
         ('C05_multistage_total','Inst','C05_multistage_total','the Multistage machine has executed exactly TC N S forward steps when it is done'),
         ('C05_gw_main','GW2','GW_main','DP = schedule recursion = closed form, for any E, Eh satisfying the DP / recursion equations'),
         ('C05_revolve_work','RevCost','revolve_work','forward work of the revolve op list = (l+1) + step-count DP (table correctness as hypothesis)')],
 'C06': [('C06_mixed_total','MixInv','done_total','Mixed: forward steps executed = planner cost C N S, storage empty at the end'),
         ('C06_plan_ge2','MixDP','plan_ge2','planner facts'),('C06_C_ics','MixDP','C_ics','cost recurrence, ICS'),('C06_C_adj','MixDP','C_adj','cost recurrence, ADJ')],
 'C09': [('C09_multistage_terminates','MSTerm','mu_decreases','termination measure decreases at every yielded action')],
 'C10': [('C10_online','BasicProofs','C10_online',''),('C10_known','BasicProofs','C10_known',''),('C10_reject','BasicProofs','C10_reject',''),('C10_next_endforward','BasicProofs','C10_next_endforward','')],
 'C13': [('C13_twolevel_step','TLInv','step_ok',''),('C13_block_total','TLInv','block_total','per-block forward total')],
 'C14': [('C14_topk_max','TopK','topk_max','the first k of a descending list maximise the sum over all k-sub-multisets')],
 'C15': [('C15_cache_coherent','MemoCoh','C15_cache_coherent',''),('C15_history_independent','MemoCoh','C15_history_independent','')],
 'C16': [('C16_table','TabEq','C16_table','')],
 'C17': [('C17_n_advance_total','NAdv','n_advance_spec','n_advance never raises on its domain; range; optimal region')],
 'C18': [('C18_z_roundtrip','Repr','z_roundtrip','decimal printing of integers parses back')],
}

core = [('%s_multistage_step','Inst','C05_multistage_step','Multistage: each resumption yields an action the class executor accepts (start position, no overwrite, covering checkpoint, WORK empty at loads, adjoint data present, store mirrors the stack) and re-establishes the invariant (n, r agree with the execution; stack within the unit count)'),
        ('%s_mixed_step','MixInv','step_ok','Mixed: same'),
        ('%s_twolevel_step','TLInv','step_ok','TwoLevel after finalisation: same, across blocks and passes'),
        ('%s_revolve_stream','RevGen','revolve_stream_ok','Revolve: the whole converted stream is accepted with RAM budget cm; ends with r = N, empty snapshot set, empty store')]
for p in ('C02','C03','C04','C08','C12'):
    PLAN[p] = [(a % p, b, c, d) for a,b,c,d in core]
PLAN['C07'] = [('C07_revolve_work','RevCost','revolve_work','forward work of revolve = (l+1) + step-count DP, independent of uf, ub (table correctness as hypothesis)'),
               ('C07_argmin_min','RevCost','argmin_min','the split chosen is a minimiser'),('C07_argmin_affine','RevCost','argmin_affine','the split does not depend on uf, ub')]
PLAN['C11'] = [('C11_uses_never_raises','SchedProofs','uses_never_raises','uses_storage_type never raises, for every StorageType member, in every state')]
PLAN['C19'] = [('C19_periodic_sweep_writes','PeriodProofs','periodic_sweep_writes','disk writes of the forward sweep are exactly at 0, m, 2m, ... while more than m steps remain'),
               ('C19_period_closed_form','PeriodProofs','periodic_period_closed_form','the period is beta(cm, tm) with tm the least t such that beta(cm+1, t) uf > wd + rd; independent of N')]

def typ(mod, name):
    src = "From Coq Require Import ZArith List Bool.\nFrom CS Require Import %s.\nImport ListNotations.\nOpen Scope Z_scope.\nSet Printing Width 110.\nCheck @%s.%s.\n" % (mod, mod, name)
    p = subprocess.run(['coqtop','-R','.','CS','-quiet'], input=src, capture_output=True, text=True)
    out = p.stdout
    m = re.search(r'\n?@?%s\.%s\s*:\s*(.*?)\n\n' % (mod, name) , out+"\n\n", re.S)
    if not m:
        m = re.search(r'%s\s*\n?\s*:\s*(.*?)\n\n' % name, out+"\n\n", re.S)
    if not m: raise SystemExit("no type for %s.%s\n%s\n%s" % (mod,name,out,p.stderr))
    return m.group(1).strip()
for prop, items in PLAN.items():
    mods = sorted(set(m for _,m,_,_ in items))
    txt = "(* %s: property theorems.  Statements only; every proof is `exact` of a lemma in Proofs/. *)\nFrom Coq Require Import ZArith List Bool.\nFrom CS Require %s.\nImport ListNotations.\nOpen Scope Z_scope.\n\n" % (prop, ' '.join(mods))
    for new, mod, name, cm in items:
        t = typ(mod, name)
        if cm: txt += "(* %s *)\n" % cm
        txt += "Module M_%s.\nImport %s.\nTheorem %s :\n  %s.\nProof. exact (@%s.%s). Qed.\nPrint Assumptions %s.\nEnd M_%s.\n\n" % (new, mod, new, t.replace('\n','\n  '), mod, name, new, new)
    open('Props/%s.v' % prop, 'w').write(txt)
    print(prop, len(items))
