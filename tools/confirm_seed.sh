#!/bin/sh
# confirm_seed.sh <name> <worktree> <property> [verif-dir]
# 1. in the scratch worktree (change applied): demo fails; full test suite passes; with the change reverted: demo passes
# 2. apply the diff to /repo, run all 19 quick checks (from <verif-dir>, default /verif), record which report a
#    VIOLATION, undo (git -C /repo checkout -- .)
set -u
name=$1; wt=$2; prop=$3; vd=${4:-/verif}
out=/verif/seeded/$name
mkdir -p $out
cp $wt/mutation.diff $out/patch.diff
cp $wt/demo.py $out/demo.py
[ -f $wt/NOTES.md ] && cp $wt/NOTES.md $out/NOTES.md
cd $wt
PYTHONPATH=$wt /venv/bin/python demo.py > $out/demo_with.log 2>&1; with=$?
git apply -R mutation.diff
PYTHONPATH=$wt /venv/bin/python demo.py > $out/demo_without.log 2>&1; without=$?
git apply mutation.diff
[ -f $out/pytest.log ] || ( /venv/bin/python -m pytest -q -p no:cacheprovider tests 2>&1 | tail -1 ) > $out/pytest.log
cd $vd
git -C /repo apply $out/patch.diff || { echo "patch does not apply to /repo"; exit 1; }
: > $out/checks.log
for p in C01 C02 C03 C04 C05 C06 C07 C08 C09 C10 C11 C12 C13 C14 C15 C16 C17 C18 C19; do
  ./check $p --tier quick > /tmp/seed_$p.log 2>&1; rc=$?
  echo "$p exit=$rc $(grep VIOLATION /tmp/seed_$p.log | sed 's/replay=[^ ]*//')" >> $out/checks.log
  if [ $rc -ne 0 ] && [ "$p" = "$prop" ]; then f=$(grep -o 'replay=[^ ]*' /tmp/seed_$p.log | head -1 | cut -d= -f2); [ -n "$f" ] && cp $f $out/replay_$p.json; fi
done
git -C /repo checkout -- .
python3 - "$name" "$prop" "$with" "$without" "$vd" <<'PY'
import json,sys,os,subprocess
name,prop,w,wo,vd=sys.argv[1:6]
out='/verif/seeded/'+name
lines=[l.strip() for l in open(out+'/checks.log')]
checks=[l.split()[0] for l in lines if 'exit=1' in l]
with_input=[l.split()[0] for l in lines if 'exit=1' in l and 'no-failing-input-found' not in l]
notes=open(out+'/NOTES.md').read() if os.path.exists(out+'/NOTES.md') else ''
commit=subprocess.run(['git','-C','/verif','rev-parse','--short','HEAD'],capture_output=True,text=True).stdout.strip()
meta=dict(name=name, breaks_property=prop, demo_exit_with_change=int(w), demo_exit_without_change=int(wo),
          pytest_with_change=open(out+'/pytest.log').read().strip(),
          checks_reporting_violation=checks, checks_reporting_a_failing_input=with_input,
          detected_by_target_check=prop in checks, target_check_gives_failing_input=prop in with_input,
          needs_to_manifest="see NOTES.md (written by the author of the change)",
          verif_commit=commit,
          ran="tools/confirm_seed.sh: demo.py with the change and with it reverted (git apply -R) in a scratch worktree; full pytest with the change; then git -C /repo apply patch.diff; ./check Cxx --tier quick for all 19 (from %s, a copy of /verif at the commit above); git -C /repo checkout -- ." % vd)
json.dump(meta,open(out+'/meta.json','w'),indent=1)
print(json.dumps({k:meta[k] for k in ('name','demo_exit_with_change','demo_exit_without_change','pytest_with_change','detected_by_target_check','target_check_gives_failing_input')}))
PY
