#!/bin/sh
# confirm_seed.sh <name> <worktree> <property>
# 1. in the scratch worktree (change applied): demo fails; test suite passes; with the change stashed: demo passes
# 2. apply the diff to /repo, run all 19 quick checks, record which report a VIOLATION, undo
set -u
name=$1; wt=$2; prop=$3
out=/verif/seeded/$name
mkdir -p $out
cp $wt/mutation.diff $out/patch.diff
cp $wt/demo.py $out/demo.py
[ -f $wt/NOTES.md ] && cp $wt/NOTES.md $out/NOTES.md
cd $wt
PYTHONPATH=$wt /venv/bin/python demo.py > $out/demo_with.log 2>&1; with=$?
git stash -q
PYTHONPATH=$wt /venv/bin/python demo.py > $out/demo_without.log 2>&1; without=$?
git stash pop -q
( /venv/bin/python -m pytest -q -p no:cacheprovider tests 2>&1 | tail -1 ) > $out/pytest.log
echo "demo_with_change_exit=$with demo_without_change_exit=$without pytest: $(cat $out/pytest.log)"
cd /verif
git -C /repo apply $out/patch.diff || { echo "patch does not apply to /repo"; exit 1; }
: > $out/checks.log
for p in C01 C02 C03 C04 C05 C06 C07 C08 C09 C10 C11 C12 C13 C14 C15 C16 C17 C18 C19; do
  ./check $p --tier quick > /tmp/seed_$p.log 2>&1; rc=$?
  echo "$p exit=$rc $(grep VIOLATION /tmp/seed_$p.log | sed 's/replay=[^ ]*//')" >> $out/checks.log
  if [ $rc -ne 0 ]; then f=$(grep -o 'replay=[^ ]*' /tmp/seed_$p.log | head -1 | cut -d= -f2); [ -n "$f" ] && cp $f $out/replay_$p.json; fi
done
git -C /repo checkout -- .
cat $out/checks.log | grep -v "exit=0"
python3 - "$name" "$prop" "$with" "$without" <<'PY'
import json,sys,os
name,prop,w,wo=sys.argv[1:5]
out='/verif/seeded/'+name
checks=[l.split()[0] for l in open(out+'/checks.log') if 'exit=1' in l]
meta=dict(name=name, breaks_property=prop, demo_exit_with_change=int(w), demo_exit_without_change=int(wo),
          pytest_with_change=open(out+'/pytest.log').read().strip(), checks_reporting_violation=checks,
          detected_by_target_check=prop in checks,
          ran="tools/confirm_seed.sh: demo.py with/without the change in a scratch worktree, full pytest with the change, then git -C /repo apply patch.diff; ./check Cxx --tier quick for all 19; git -C /repo checkout -- .")
json.dump(meta,open(out+'/meta.json','w'),indent=1)
print(json.dumps(meta))
PY
