#!/bin/sh
# try_seed.sh <name> <worktree-with-change-applied>
# Development helper: runs all 19 quick checks from a frozen copy of /verif (VERIF_FROZEN, default /verif) against the
# scratch worktree (VERIF_REPO), so that neither /repo nor the live /verif tree is involved.
# The recorded confirmation is tools/confirm_seed.sh.
set -u
name=$1; wt=$2
snap=/tmp/verif_snap_$name
rm -rf $snap && mkdir -p $snap && rsync -a --exclude .git --exclude .cache --exclude evidence ${VERIF_FROZEN:-/verif}/ $snap/
cd $snap
for p in C01 C02 C03 C04 C05 C06 C07 C08 C09 C10 C11 C12 C13 C14 C15 C16 C17 C18 C19; do
  VERIF_REPO=$wt ./check $p --tier quick > $snap/seed_$p.log 2>&1; rc=$?
  echo "$p exit=$rc $(grep VIOLATION $snap/seed_$p.log | sed 's/replay=[^ ]*//')"
done > /tmp/try_$name.log
grep -v "exit=0" /tmp/try_$name.log
