#!/usr/bin/env python3
"""Generate coq/Props/Cxx.v: statements + `exact`-style proofs + Print Assumptions only.
Full theorems are about the extracted model (Sched.run_case ...); *_partial theorems are about the abstract machines of
classes whose bridge to the extracted model is not proved yet (their statements are taken from the proved lemma by Check)."""
import subprocess, re, os
os.chdir('/verif/coq')

HEAD = """(* %s -- %s
   Property theorems only: each proof is one application of a lemma proved in Proofs/, followed by Print Assumptions.
   run_case is the extracted client of Model/Sched.v: it constructs the schedule, performs the listed operations, feeds every
   emitted action to the reference executor of Model/Exec.v with the declared budgets, and compares n / r / max_n with the
   execution after every action; `no_err err_Cxx m` = the monitor reported no error of this property's class;
   `no_raise ls` = no request ended in an exception. *)
From Coq Require Import ZArith List Bool.
From CS Require Import Actions NAdvance Multistage Exec Sched RunFacts Projections BasicInv MultistageRun AllocTotal TLBridge MixBridge.
Import ListNotations.
Open Scope Z_scope.

"""

def safety(pid, cls, what):
    e = "err_" + cls
    t = ""
    t += f"""(* NoneCheckpointSchedule: Forward, finalize(N), EndForward, then StopIteration for ever *)
Theorem {pid}_none : forall (N : Z) (k : nat), 1 <= N -> N <= maxsize ->
  exists o0 m ls, run_case PNone (BasicInv.pn N) ([Next; Fin N] ++ repeat Next k) = Ok (o0, m, ls) /\\ no_err {e} m /\\ no_raise ls.
Proof. intros N k H1 H2. destruct (none_run N H1 H2 k) as (o0 & m & ls & E & Hm & Hl). exists o0, m, ls. auto using mon_ok_no_err. Qed.
Print Assumptions {pid}_none.

(* SingleMemoryStorageSchedule: any number of adjoint calculations *)
Theorem {pid}_single_memory : forall (N : Z) (k : nat), 1 <= N -> N <= maxsize ->
  exists o0 m ls, run_case PMem (BasicInv.pm N) ([Next; Fin N] ++ repeat Next k) = Ok (o0, m, ls) /\\ no_err {e} m /\\ no_raise ls.
Proof. intros N k H1 H2. destruct (single_memory_run N H1 H2 k) as (o0 & m & ls & E & Hm & Hl). exists o0, m, ls. auto using mon_ok_no_err. Qed.
Print Assumptions {pid}_single_memory.

(* SingleDiskStorageSchedule, move_data = False (any number of adjoint calculations) and True (one) *)
Theorem {pid}_single_disk : forall (mv : bool) (N : Z) (k : nat), 1 <= N ->
  exists o0 m ls, run_case (PDisk mv) (BasicInv.pd N) (repeat Next (Z.to_nat N) ++ [Fin N] ++ repeat Next k) = Ok (o0, m, ls)
                  /\\ no_err {e} m /\\ no_raise ls.
Proof. intros mv N k H1. destruct (single_disk_run mv N H1 k) as (o0 & m & ls & E & Hm & Hl). exists o0, m, ls. auto using mon_ok_no_err. Qed.
Print Assumptions {pid}_single_disk.

(* MultistageCheckpointSchedule: every N, every RAM/DISK split, both trajectories; budgets = the declared unit counts;
   the constructor (allocate_snapshots included) is proved total on this domain, so there is no hypothesis about it *)
Theorem {pid}_multistage : forall (N ram disk : Z) (tj : traj) (k : nat),
  1 <= N -> 0 <= ram -> 0 <= disk -> (2 <= N -> 1 <= ram + disk) ->
  exists o0 m ls, run_case (PMulti N ram disk tj) (ms_params N ram disk) (repeat Next k) = Ok (o0, m, ls) /\\ no_err {e} m /\\ no_raise ls.
Proof.
  intros N ram disk tj k H1 H2 H3 H4. destruct (multistage_run_total N ram disk tj k H1 H2 H3 H4) as (o0 & m & ls & E & Hm & Hl).
  exists o0, m, ls. auto using mon_ok_no_err.
Qed.
Print Assumptions {pid}_multistage.

(* TwoLevelCheckpointSchedule: every N (also not a multiple of the period), period, binomial_snapshots, both binomial storages,
   both trajectories, any number of adjoint calculations; Q = ceil(N / period) forward requests, then finalize(N) *)
Theorem {pid}_twolevel : forall (N P bs : Z) (bst : storage) (tj : traj) (k : nat),
  1 <= N -> 1 <= P -> 0 <= bs -> bst = RAM \\/ bst = DISK ->
  exists o0 m ls, run_case (PTwo P bs bst tj) (ptl N P bs bst) (repeat Next (Z.to_nat (TLBridge.Q N P)) ++ [Fin N] ++ repeat Next (S k)) = Ok (o0, m, ls)
                  /\\ no_err {e} m /\\ no_raise ls.
Proof.
  intros N P bs bst tj k H1 H2 H3 H4. destruct (twolevel_run N P bs bst tj H1 H2 H3 H4 k) as (o0 & m & ls & E & Hm & Hl).
  exists o0, m, ls. auto using mon_ok_no_err.
Qed.
Print Assumptions {pid}_twolevel.

(* RevolveCheckpointSchedule, class Revolve (memory only): every N, every number of RAM units, every cost vector (the disk
   arguments are ignored by this class); budgets RAM = snapshots_in_ram, DISK = 0 *)
Theorem {pid}_revolve : forall (N ram disk uf ub wd rd : Z) (k : nat), 1 <= N -> 0 <= ram -> (2 <= N -> 1 <= ram) ->
  exists o0 m ls, run_case (PRev RevConv.KRevolve N ram disk uf ub wd rd) (RevBridge4.rev_xparams N ram) (repeat Next k) = Ok (o0, m, ls) /\\ no_err {e} m /\\ no_raise ls.
Proof.
  intros N ram disk uf ub wd rd k H1 H2 H3. destruct (RevolveRun.revolve_run N ram disk uf ub wd rd k H1 H2 H3) as (o0 & m & ls & E & Hm & Hl).
  exists o0, m, ls. auto using mon_ok_no_err.
Qed.
Print Assumptions {pid}_revolve.

(* MixedCheckpointSchedule: every N, every unit count, both storages, both planner paths (memoised / tabulated) *)
Theorem {pid}_mixed : forall (N s : Z) (sg : storage) (tab : bool) (k : nat),
  1 <= N -> 0 <= s -> (2 <= N -> 1 <= s) -> sg = RAM \\/ sg = DISK ->
  exists o0 m ls, run_case (PMixed N s sg tab) (pmx N (Z.min s (N - 1)) sg) (repeat Next k) = Ok (o0, m, ls) /\\ no_err {e} m /\\ no_raise ls.
Proof.
  intros N s sg tab k H1 H2 H3 H4. destruct (mixed_run N s sg tab k H1 H2 H3 H4) as (o0 & m & ls & E & Hm & Hl).
  exists o0, m, ls. auto using mon_ok_no_err.
Qed.
Print Assumptions {pid}_mixed.

"""
    return t

def disk_safety(pid, cls):
    e = "err_" + cls
    return f"""(* DiskRevolve and PeriodicDiskRevolve: the whole documented domain -- every N >= 1, snapshots_in_ram >= 0 (>= 1 when N >= 2), every cost vector; budgets RAM = snapshots_in_ram, DISK unbounded.
   The monitor's only possible verdict other than "no error" is E_leftover at the final EndReverse (class C04: the open finding
   D8, see C04_disk_revolve_refuted), so no error of THIS property's class is ever reported, and nothing raises *)
Theorem {pid}_disk_revolve : forall (N ram disk uf ub wd rd : Z) (k : nat), 1 <= N -> 0 <= ram -> (2 <= N -> 1 <= ram) ->
  exists o0 m ls, run_case (PRev RevConv.KDiskRevolve N ram disk uf ub wd rd) (DiskRun.disk_xparams N ram) (repeat Next k) = Ok (o0, m, ls) /\\ no_err {e} m /\\ no_raise ls.
Proof.
  intros N ram disk uf ub wd rd k H1 H2 H2'. destruct (DiskRun.disk_revolve_run N ram disk uf ub wd rd k H1 H2 H2') as (o0 & m & ls & E & Hl & Hm).
  exists o0, m, ls. split; [exact E|]. split; [apply (DiskRun.leftover_no_err _ m Hm); intros []|exact Hl].
Qed.
Print Assumptions {pid}_disk_revolve.
Theorem {pid}_periodic_disk_revolve : forall (N ram disk uf ub wd rd : Z) (k : nat), 1 <= N -> 0 <= ram -> (2 <= N -> 1 <= ram) ->
  exists o0 m ls, run_case (PRev RevConv.KPeriodic N ram disk uf ub wd rd) (DiskRun.disk_xparams N ram) (repeat Next k) = Ok (o0, m, ls) /\\ no_err {e} m /\\ no_raise ls.
Proof.
  intros N ram disk uf ub wd rd k H1 H2 H2'. destruct (DiskRun.periodic_run N ram disk uf ub wd rd k H1 H2 H2') as (o0 & m & ls & E & Hl & Hm).
  exists o0, m, ls. split; [exact E|]. split; [apply (DiskRun.leftover_no_err _ m Hm); intros []|exact Hl].
Qed.
Print Assumptions {pid}_periodic_disk_revolve.

"""

def hrev_safety(pid, cls):
    e = "err_" + cls
    return f"""(* HRevolve (two levels): the whole documented domain -- every N >= 1, snapshots_in_ram >= 0 (>= 1 when N >= 2), snapshots_on_disk >= 0, every cost vector (the constructor's dynamic
   program and recursion are proved total: HRevTotal); budgets RAM = snapshots_in_ram, DISK unbounded (the DISK budget itself:
   C03_hrevolve_refuted).  As for DiskRevolve the only verdict other than "no error" is E_leftover at the final EndReverse (D8) *)
Theorem {pid}_hrevolve : forall (N ram disk uf ub wd rd : Z) (k : nat), 1 <= N -> 0 <= ram -> (2 <= N -> 1 <= ram) -> 0 <= disk ->
  exists o0 m ls, run_case (PRev RevConv.KHRevolve N ram disk uf ub wd rd) (DiskRun.disk_xparams N ram) (repeat Next k) = Ok (o0, m, ls) /\\ no_err {e} m /\\ no_raise ls.
Proof.
  intros N ram disk uf ub wd rd k H1 H2 H2' H3. destruct (HRevTop.hrevolve_run_total N ram disk uf ub wd rd k H1 H2 H2' H3) as (o0 & m & ls & E & Hl & Hm).
  exists o0, m, ls. split; [exact E|]. split; [apply (DiskRun.leftover_no_err _ m Hm); intros []|exact Hl].
Qed.
Print Assumptions {pid}_hrevolve.

"""

def typ(mod, name):
    src = "From Coq Require Import ZArith List Bool.\nFrom CS Require Import %s.\nImport ListNotations.\nOpen Scope Z_scope.\nSet Printing Width 110.\nCheck @%s.%s.\n" % (mod, mod, name)
    p = subprocess.run(['coqtop','-R','.','CS','-quiet'], input=src, capture_output=True, text=True)
    out = p.stdout
    m = re.search(r'%s\s*\n?\s*:\s*(.*?)\n\n' % name, out+"\n\n", re.S)
    if not m: raise SystemExit("no type for %s.%s\n%s\n%s" % (mod,name,out,p.stderr))
    return m.group(1).strip()

def lifted(new, mod, name, comment):
    t = typ(mod, name)
    return "(* %s *)\nModule M_%s.\nImport %s.\nTheorem %s :\n  %s.\nProof. exact (@%s.%s). Qed.\nPrint Assumptions %s.\nEnd M_%s.\n\n" % (
        comment.replace('*)','* )'), new, mod, new, t.replace('\n','\n  '), mod, name, new, new)

PARTIAL_SAFETY = []   # DiskRevolve, PeriodicDiskRevolve, HRevolve: validated model + correspondence + oracle only (DESIGN.md 6); see the *_refuted theorems of C03 / C04

TITLES = {}
import json
for l in open('/verif/properties.jsonl'):
    p = json.loads(l); TITLES[p['id']] = p['title']

BASIC_SRC = 'THE MODEL OF THE THREE BASIC CLASSES IS THE SOURCE: GenBasic.prog_of c is the program (deep-embedded generator language GenLang) that harness/translate.py produces from the _iterator method of NoneCheckpointSchedule / SingleMemoryStorageSchedule / SingleDiskStorageSchedule; Gen/BasicGen.v re-translates the current source on every run and proves it equal to that term by conversion.  Resuming that program request by request (GenLang.run = next() on the suspended generator; finalize = the base-class method on the attributes) from the freshly constructed object gives, under EVERY history of next() and finalize(k) calls, exactly the observations (outcome, n, r, max_n, is_exhausted) of the hand-written model Online.run_ops -- so the theorems of this file about these three classes, stated on the extracted model, are theorems about the translated source'
TWO_SRC = 'THE MODEL OF TwoLevelCheckpointSchedule IS THE SOURCE: GenTwo.two_prog_model is the program (generator language GenLang2: named locals, the snapshots stack, //, *, min, n_advance, assert, del) that harness/translate.py produces from TwoLevelCheckpointSchedule._iterator; Gen/TwoLevelGen.v re-translates the current source on every run and proves it equal to that term by conversion.  Resuming that program request by request from the freshly constructed object gives, for every period, unit count, storage and trajectory the constructor accepts and under EVERY history of next() and finalize(k) calls, exactly the observations (outcome, n, r, max_n, is_exhausted) of the hand-written machine Online.run_ops (class KTwo) -- so the TwoLevel theorems of this file, stated on the extracted model, are theorems about the translated source (n_advance itself is tied by Gen/NAdvanceGen.v)'
MULTI_SRC = 'THE MODEL OF MultistageCheckpointSchedule IS THE SOURCE: GenMulti.multi_prog_model is the program (generator language GenLang3) that harness/translate.py produces from MultistageCheckpointSchedule._iterator, the nested helper write(n) inlined at its two call sites; Gen/MultistageGen.v re-translates the current source on every run and proves it equal to that term by conversion.  For every parameter tuple the constructor accepts, resuming that program request by request gives under EVERY history of next() and finalize(k) calls exactly the observations (outcome, n, r, max_n, is_exhausted) of the schedule object of Model/Sched.v (srun_ops: Sched.next / Sched.finalize on the Multistage machine) -- so the Multistage theorems of this file, stated on the extracted model, are theorems about the translated source.  (The unit total self._snapshots_in_ram + self._snapshots_on_disk is read as the length of the label tuple self._storage, which is what __init__ recounts them from; the allocation of the labels, allocate_snapshots, is tied by the correspondence.)'
CONV_SRC = 'THE CONVERTER OF THE FOUR REVOLVE-FAMILY CLASSES IS THE SOURCE: GenConv.conv_prog_model is the program (generator language GenLang4: the operation list with Python indexing, _convert_action, integer / boolean / storage / type-name locals, the set snapshots) that harness/translate.py produces from RevolveCheckpointSchedule._iterator; Gen/ConverterGen.v re-translates the current source on every run and proves it equal to that term by conversion (and Gen/ConvertGen.v does the same for _convert_action).  For Revolve, DiskRevolve, PeriodicDiskRevolve and HRevolve alike, every accepted parameter tuple and every history of next() and finalize(k) calls: as long as the hand-written machine (RevConv.next on the operation list of the class) does not raise, resuming the translated program gives exactly its observations (outcome, n, r, max_n, is_exhausted) -- raise_free is what the run theorems of this file establish for the four classes; after an exception the two may differ in n (the hand-written machine reports the error before it commits the updates of that iteration).  The operation list itself (the sequence generators) is tied by the correspondence'
MIXED_SRC = 'THE MODEL OF MixedCheckpointSchedule IS THE SOURCE: GenMixed.mixed_prog_model is the program (generator language GenLang5: the stack snapshots of (step type, n0, n1) triples, the set snapshot_n, the planner read as a function, step-type / integer / boolean locals, break) that harness/translate.py produces from MixedCheckpointSchedule._iterator; Gen/MixedGen.v re-translates the current source on every run and proves it equal to that term by conversion.  For every planner the constructor can select (the table of mixed_steps_tabulation or mixed_step_memoization behind its cache) and under EVERY history of next() and finalize(k) calls, resuming that program request by request from the freshly constructed object gives exactly the observations (outcome, n, r, max_n, is_exhausted) of the schedule object of Model/Sched.v (hand-written machine Mixed.resume) -- up to the first exception the latter raises (raise_free: none on the documented domain, by the Mixed run theorems of this file); the invariant carried through is that the set snapshot_n holds exactly the distinct first components of the stack (GenMixed.sinv), which is why the model needs no set'
SEQ_SRC = 'THE SEQUENCE GENERATORS ARE THE SOURCE: SeqGenSpec.revolve_shape / disk_revolve_shape / periodic_shape are the Gallina functions harness/translate.py (SeqTr) renders from revolve(), disk_revolve() and periodic_disk_revolve() of hrevolve_sequences/ -- every sequence.insert(operation(..)) appends one operation, insert_sequence(f(..).shift(k)) a recursively built list, the loops become for_down / while_, reads of the tables tget / lget with IndexError; Gen/SeqGen.v re-translates the current source on every run and proves the result equal to these terms by conversion.  They are proved equal, for all arguments, to the extracted RevSeq.revolve / RevSeq.disk_revolve / the body of RevSeq.periodic_top, on which every theorem about the Revolve family is stated; this is the top-level call of the constructor (RevConv.sequence) read on the translated source.  Not translated: the tables (get_opt_0_table, get_opt_inf_table), mxrr_close_formula and the Sequence / Operation classes of basic_functions.py (their flattening, shift and remove_useless_wm are Ops.v)'
def seq_parts(pid):
    return (lifted('%s_revolve_sequence_is_source' % pid, 'SeqGenSpec', 'revolve_top_is_source', SEQ_SRC)
          + lifted('%s_disk_revolve_sequence_is_source' % pid, 'SeqGenSpec', 'disk_revolve_top_is_source', '... DiskRevolve')
          + lifted('%s_periodic_sequence_is_source' % pid, 'SeqGenSpec', 'periodic_top_is_source', '... PeriodicDiskRevolve (the period is at least 1: PeriodGen.mxrr_pos)')
          + lifted('%s_hrevolve_sequence_is_source' % pid, 'HSeqGenSpec', 'hrevolve_is_source', '... HRevolve: hrevolve_aux / hrevolve_recurse (mutually recursive; costs integers or +infinity) rendered by the translator (Gen/HSeqGen.v), proved equal to HRevSeq.aux / HRevSeq.recurse for every chain length l >= 0, with the test `the sequence built so far ends in a Discard` read as is_discard (last_op ..)')
          + lifted('%s_argmin_is_source' % pid, 'ArgminGenSpec', 'argmin_shape_is_model', '... argmin of basic_functions.py, rendered once over any element type with its <= (Gen/ArgminGen.v): on integers it is RevSeq.argmin with IndexError on the empty list (py_argmin, as the sequence generators above call it)')
          + lifted('%s_argmin_costs_is_source' % pid, 'ArgminGenSpec', 'cargmin_shape_is_model', '... and on costs that may be infinite HRevSeq.argmin')
          + lifted('%s_hopt_table_is_source' % pid, 'HoptGenSpec', 'hopt_shape_is_model', '... and the cost tables of H-Revolve: get_hopt_table rendered by the translator for two storage levels (Gen/HoptGen.v: assignments into opt[k][l][m] / optp[k][l][m] are hset, reads hget, float(inf) is Inf, l * (l + 1) / 2 exact division), proved equal to HRevSeq.get_hopt_table for all arguments')
          + lifted('%s_optinf_table_is_source' % pid, 'OptInfGenSpec', 'optinf_shape_is_model', '... and the Disk-Revolve table: get_opt_inf_table (one_read_disk = True) rendered by the translator (Gen/OptInfGen.v: the Table is a list that only grows by append), proved equal to RevSeq.get_opt_inf_table for all arguments')
          + lifted('%s_opt0_table_is_source' % pid, 'Opt0GenSpec', 'opt0_shape_is_model', '... and the Revolve table: get_opt_0_table rendered by the translator (Gen/Opt0Gen.v: a list of rows that only grow by append), proved equal to RevSeq.get_opt_0_table for every slot count mmax >= 0'))
files = {}
for pid, cls in [('C01','C01'),('C02','C02'),('C03','C03'),('C04','C04'),('C08','C08'),('C12','C12')]:
    body = HEAD % (pid, TITLES[pid]) + safety(pid, cls, '')
    body = body.replace("From CS Require Import Actions", "From CS Require Ops RevConv RevBridge4 RevolveRun Refuted DiskRun DiskBridge3 HRevRun HRevTop GenLang GenBasic GenLang2 GenTwo GenLang3 GenMulti GenLang4 GenConv GenLang5 GenMixed SeqGenSpec HSeqGenSpec ArgminGenSpec HoptGenSpec OptInfGenSpec Opt0GenSpec.\nFrom CS Require Import Actions")
    if pid != 'C04':
        body += disk_safety(pid, cls)
        body += hrev_safety(pid, cls)
    else:
        body += '''(* DiskRevolve / PeriodicDiskRevolve: everything but this property's own error class is excluded -- the verdict is "no error" or
   E_leftover at the final EndReverse, and nothing raises (for E_leftover itself see the *_refuted theorems below) *)
Theorem C04_disk_revolve_only_leftover_partial : forall (N ram disk uf ub wd rd : Z) (k : nat), 1 <= N -> 0 <= ram -> (2 <= N -> 1 <= ram) ->
  exists o0 m ls, run_case (PRev RevConv.KDiskRevolve N ram disk uf ub wd rd) (DiskRun.disk_xparams N ram) (repeat Next k) = Ok (o0, m, ls) /\\ no_raise ls /\\ DiskBridge3.leftover_or_ok m.
Proof. exact DiskRun.disk_revolve_run. Qed.
Print Assumptions C04_disk_revolve_only_leftover_partial.
Theorem C04_hrevolve_only_leftover_partial : forall (N ram disk uf ub wd rd : Z) (k : nat), 1 <= N -> 0 <= ram -> (2 <= N -> 1 <= ram) -> 0 <= disk ->
  exists o0 m ls, run_case (PRev RevConv.KHRevolve N ram disk uf ub wd rd) (DiskRun.disk_xparams N ram) (repeat Next k) = Ok (o0, m, ls) /\\ no_raise ls /\\ DiskBridge3.leftover_or_ok m.
Proof. exact HRevTop.hrevolve_run_total. Qed.
Print Assumptions C04_hrevolve_only_leftover_partial.

'''
    if pid == 'C02':
        body += lifted('C02_multistage_terminates','AllocTotal','multistage_terminates','completeness (Multistage): EndReverse is emitted within 6 * TC N S + 1 requests, with no error and no exception on the way, and by then the reference executor has carried out exactly TC N S forward steps')
    if pid == 'C04':
        body += lifted('C04_hrevolve_refuted','Refuted','C04_hrevolve_refuted','REFUTED for HRevolve (known finding D8-C04): a parameter tuple of the documented domain whose run on the extracted model reaches EndReverse with a checkpoint left on DISK (first monitor error E_leftover); the witness is HRevolve(4, 1, 1, uf=1, ub=1, wd=0, rd=1), evaluated by vm_compute')
        body += lifted('C04_disk_revolve_refuted','Refuted','C04_disk_revolve_refuted','REFUTED for DiskRevolve (D8-C04): DiskRevolve(4, 1, uf=1, ub=1, wd=0, rd=1)')
        body += lifted('C04_periodic_refuted','Refuted','C04_periodic_refuted','REFUTED for PeriodicDiskRevolve (D8-C04): PeriodicDiskRevolve(4, 1, uf=1, ub=1, wd=0, rd=1)')
    if pid == 'C03':
        body += lifted('C03_hrevolve_refuted','Refuted','C03_hrevolve_refuted','REFUTED for HRevolve (known finding D8-C03): HRevolve(11, 1, 2, uf=1, ub=1, wd=0, rd=1) holds three DISK checkpoints with two disk units (first monitor error E_budget DISK)')
    if pid == 'C02':
        body += lifted('C02_revolve_terminates','RevolveRun','revolve_terminates','completeness (Revolve): the op list is finite; from some request count on the schedule is exhausted, with no error on the way and exactly TC N s forward steps executed')
        body += lifted('C02_disk_revolve_terminates','DiskRun','disk_revolve_terminates','completeness (DiskRevolve, snapshots_in_ram >= 1): the op list is finite; from 2 |ops| + 2 requests on the schedule is exhausted, nothing raised on the way, and the only executor verdict possible besides "no error" is E_leftover at the final EndReverse (D8-C04)')
        body += lifted('C02_periodic_terminates','DiskRun','periodic_terminates','completeness (PeriodicDiskRevolve): the same')
        body += lifted('C02_hrevolve_terminates','HRevTop','hrevolve_terminates_total','completeness (HRevolve): the constructor returns and the same holds')
        body += lifted('C02_mixed_terminates','MixBridge','mixed_terminates','completeness (Mixed, both planner paths): within N (N + 3) + N + 2 requests the schedule is exhausted (EndReverse has been emitted, by C09_flags), and by then exactly C N S forward steps have been executed')
    for new, mod, name, cm in PARTIAL_SAFETY:
        body += lifted(new % pid, mod, name, cm)
    body += lifted('%s_basic_source_is_model' % pid, 'GenBasic', 'basic_from_start', BASIC_SRC)
    body += lifted('%s_twolevel_source_is_model' % pid, 'GenTwo', 'two_from_start', TWO_SRC)
    body += lifted('%s_multistage_source_is_model' % pid, 'GenMulti', 'multi_from_start', MULTI_SRC)
    body += lifted('%s_revolve_family_converter_is_source' % pid, 'GenConv', 'conv_from_start', CONV_SRC)
    body += lifted('%s_mixed_source_is_model' % pid, 'GenMixed', 'mixed_from_start', MIXED_SRC)
    body += seq_parts(pid)
    files[pid] = body


HEAD2 = """(* %s -- %s
   Property theorems only: each proof is one application of a lemma proved in Proofs/, followed by Print Assumptions. *)
From Coq Require Import ZArith List Bool.
From CS Require %s.
From CS Require Import Actions NAdvance Multistage Exec Sched RunFacts Projections BasicInv MultistageRun AllocTotal TLBridge MixBridge.
Import ListNotations.
Open Scope Z_scope.

"""
def mk(pid, mods, parts):
    files[pid] = HEAD2 % (pid, TITLES[pid], ' '.join(mods)) + ''.join(parts)

C05_total = """(* Multistage on the extracted model: once the schedule reports exhaustion, the reference executor has carried out exactly
   TC N S forward steps (S = the clamped total unit count), whatever the RAM/DISK split *)
Theorem C05_multistage_forward_total : forall (N ram disk : Z) (tj : traj) (c : Multistage.cfg) (k : nat),
  1 <= N -> 0 <= ram -> 0 <= disk -> (2 <= N -> 1 <= ram + disk) -> Multistage.construct N ram disk tj = Ok c ->
  exists o0 m ls, run_case (PMulti N ram disk tj) (ms_params N ram disk) (repeat Next k) = Ok (o0, m, ls) /\\ mon_ok m /\\ no_raise ls /\\
     (forall s1, fst (fst (run_ops (ms_params N ram disk) {| ob := OMulti c Multistage.init (count_st RAM (labels c)) (count_st DISK (labels c)); started := false |} mon0 (repeat Next k))) = s1 ->
        is_exhausted s1 = true -> fwd_total (cnt (mx m)) = Inst.TC tj N (total c)).
Proof. exact multistage_run. Qed.
Print Assumptions C05_multistage_forward_total.

"""
HELPER_SRC = 'THE PUBLISHED HELPER IS THE SOURCE: HelperGenSpec.oes_shape / osb_shape are the Gallina functions harness/translate.py (HelperTr) renders from optimal_extra_steps (behind cache_step: the clamp s = min(s, n - 1), the dictionary being a pure memo) and optimal_steps_binomial of multistage.py -- the recursion on explicit fuel, `for i in range(1, n)` as py_forB over the optional running best; Gen/HelperGen.v re-translates the current source on every run and proves the result equal to these terms by conversion.  The shape is equal, for every fuel and argument, to BinomDP.Em, the dynamic program C05_chain / C05_gw_main are proved about'
mk('C05', ['Inst','GW2','RevCost','BinomDP','RevConv','RevBridge4','RevolveRun','RevolveGW','Opt0Table','GenLang3','GenMulti','SeqGenSpec','HelperGenSpec','HelperTC'], [C05_total,
   lifted('C05_helper_is_source','HelperGenSpec','oes_shape_is_Em',HELPER_SRC),
   lifted('C05_helper_value','HelperTC','osb_is_TC','optimal_steps_binomial(n, s), as translated from the source, returns on its whole domain (n >= 1; s >= 1, or s >= 0 when n = 1; fuel = the recursion depth n) exactly TC n s: the number of forward steps C05_multistage_forward_total and C05_revolve_forward_total establish for the streams (for either trajectory tr), = n + the Griewank-Walther closed form by C05_chain'),
   lifted('C05_helper_model_value','HelperTC','model_osb_is_TC','... and so does the model of the helper that the extracted driver evaluates and the correspondence compares with multistage.optimal_steps_binomial on generated (n, s) (Binomial.optimal_steps_binomial: cache_step with the dictionary explicit, started empty, fuel n + 2): = TC n s on the whole domain'),
   lifted('C05_helper_rejects','HelperGenSpec','oes_rejects','... and outside that domain (n <= 0, or s < min(1, n - 1)) both helpers raise ValueError before any recursion'), lifted('C05_revolve_sequence_is_source', 'SeqGenSpec', 'revolve_top_is_source', SEQ_SRC),
   lifted('C05_multistage_source_is_model','GenMulti','multi_from_start',MULTI_SRC),
   lifted('C05_chain','Inst','C05_chain','TC (the forward work of the recursion n_advance defines) = n + E n k, and E n k = the Griewank-Walther closed form; E = the model of optimal_extra_steps'),
   lifted('C05_gw_main','GW2','GW_main','Griewank-Walther: DP value = schedule recursion = closed form, for any E, Eh satisfying the DP / recursion equations'),
   lifted('C05_dp_is_min','BinomDP','E_le','the DP value is minimal among all bisection splits'),
   lifted('C05_revolve_forward_total','RevolveRun','revolve_forward_total_gw','Revolve on the extracted model, every cost vector with uf > 0: once the schedule is exhausted the reference executor has carried out exactly TC N s forward steps -- the same number as Multistage (for either trajectory tj), i.e. N + E N s'),
   lifted('C05_revolve_dp_is_gw','RevolveGW','P_eq_E','the step-count DP behind get_opt_0_table (min over first splits) is the Griewank-Walther DP value E (l+1) m'),
   lifted('C05_global_optimality_partial','BinomDP','E_le','PARTIAL: optimality is proved within the family of bisection schedules (E is the minimum of the DP over all first splits, and both classes attain it); that NO executable schedule whatsoever with s restart checkpoints does better (Griewank-Walther 2000, Prop. 1) is not proved')])
C06_total = """(* Mixed on the extracted model (either planner path): once the schedule reports exhaustion the reference executor has carried
   out exactly C N S forward steps -- the cost of the planner's recurrence (C3 N S = MixDP.C N S, the model of
   mixed_step_memoization(N, S)[2]); the same for RAM and DISK *)
Theorem C06_mixed_forward_total : forall (N S_ : Z) (sg : storage) (tab : bool), 1 <= N -> (2 <= N -> 1 <= S_) -> 0 <= S_ -> sg = RAM \\/ sg = DISK -> forall k : nat,
  let '(s', m, ls) := run_ops (pmx N S_ sg) (sch0 N S_ sg tab) mon0 (repeat Next k) in
  mon_ok m /\\ no_raise ls /\\ (is_exhausted s' = true -> fwd_total (cnt (mx m)) = C3 N S_).
Proof. exact mixed_cfg_run. Qed.
Print Assumptions C06_mixed_forward_total.

Theorem C06_cost_is_planner_cost : forall m k : Z, 1 <= m -> (1 <= k \\/ m = 1 /\\ 0 <= k) -> C3 m k = MixDP.C m k.
Proof. exact C3_C. Qed.
Print Assumptions C06_cost_is_planner_cost.

"""
MIXHELPER_SRC = 'THE PUBLISHED HELPER optimal_steps_mixed IS THE SOURCE: MixHelperSpec.osm_shape is the Gallina function harness/translate.py (HelperTr) renders from optimal_steps_mixed of mixed.py (behind cache_step; `m = 1 + f(n-1, s-1); for i in range(2, n): m = min(m, i + f(i, s) + f(n-i, s-1))` as py_for over a running minimum); Gen/MixHelperGen.v re-translates the current source on every run and proves the result equal to that term by conversion.  Whenever the memoised planner mixed_step_memoization(n, s) (Mixed.memo, itself re-translated: Gen/MemoGen.v) returns a plan, the helper returns that plan\'s cost, for every fuel and argument'
mk('C06', ['MixInv','MixDP','GenLang5','GenMixed','MixHelperSpec','MixHelperCoh'], [C06_total,
   lifted('C06_helper_model_value','MixHelperCoh','optimal_steps_mixed_value','the model of optimal_steps_mixed that the extracted driver evaluates and the correspondence compares with the implementation (Binomial.optimal_steps_mixed: cache_step with the dictionary explicit, started empty) returns MixDP.C n s on the whole domain'),
   lifted('C06_helper_is_source','MixHelperSpec','osm_of_memo',MIXHELPER_SRC),
   lifted('C06_helper_is_planner_cost','MixHelperSpec','osm_value','optimal_steps_mixed(n, s), as translated from the source, returns on its whole domain MixDP.C n s -- by C06_cost_is_planner_cost and C06_mixed_forward_total the number of forward steps of the Mixed stream'),
   lifted('C06_helper_rejects','MixHelperSpec','osm_rejects','... and outside that domain it raises ValueError before any recursion'),
   lifted('C06_mixed_source_is_model','GenMixed','mixed_from_start',MIXED_SRC),
   lifted('C06_mixed_terminates','MixBridge','mixed_terminates','... and that point is reached: within N (N + 3) + N + 2 requests the schedule is exhausted with exactly C N S forward steps executed'),
   lifted('C06_plan_1','MixDP','plan_1',''), lifted('C06_plan_ge2','MixDP','plan_ge2','facts of the concrete planner model: the step kind and length it prescribes'),
   lifted('C06_plan_2','MixDP','plan_2',''), lifted('C06_C_ics','MixDP','C_ics','cost recurrence, restart checkpoint'), lifted('C06_C_adj','MixDP','C_adj','cost recurrence, adjoint-dependency checkpoint'),
   lifted('C06_dp_le_adj','MixHelperCoh','C_le_adj','THE PLANNER COST IS THE MINIMUM OF ITS RECURRENCE OVER ALL CANDIDATES (the analogue of C05_dp_is_min): not above the adjoint-dependency candidate ...'),
   lifted('C06_dp_le_ics','MixHelperCoh','C_le_ics','... nor above ANY restart-checkpoint candidate 2 <= i <= m - 1 ...'),
   lifted('C06_dp_attained','MixHelperCoh','C_attained','... and equal to one of them'),
   lifted('C06_planC_unfold_partial','MixDP','planC_unfold','PARTIAL: the planner value is the minimum over the candidates of its own recurrence (one-level unfolding); that no executable schedule whatsoever does better (Maddison 2024, Thm 1) is not proved')])
mk('C07', ['RevCost','RevConv','RevBridge4','RevolveRun','Opt0Table','DiskCost','DiskCount','HRevTable','HRevCost','HRevCount','SeqGenSpec','HSeqGenSpec','ArgminGenSpec','HoptGenSpec','OptInfGenSpec','Opt0GenSpec'], [seq_parts('C07'),
   lifted('C07_revolve_forward_total','RevolveRun','revolve_forward_total','Revolve on the extracted model, every cost vector with uf > 0: forward steps at exhaustion = N + P s (N-1), P = the step-count DP (Opt0Table.P: minimum over all first splits); reversed steps = N by the run theorem; no DISK traffic (budget 0)'),
   lifted('C07_revolve_table_optimum','RevolveRun','revolve_table_optimum','... and the entry of the extracted get_opt_0_table for the whole problem is N ub + uf P s (N-1): stream cost uf*fwd + ub*N = table optimum + N uf, the memory-only optimum'),
   lifted('C07_opt0_values','Opt0Table','opt0_values','every entry of the table the generators read is (l+1) ub + uf P m l'),
   lifted('C07_revolve_optimal_in_grammar','DiskCost','revolve_optimal','REVOLVE, operation lists (cost = uf per forward step + ub per Backward + wd per Write_disk + rd per Read_disk): the list revolve produces is in the grammar RevBlk.Blk, costs exactly the opt_0 table entry + (l+1) uf, and no list of that grammar for l steps and cm slots costs less'),
   lifted('C07_disk_revolve_optimal_in_grammar','DiskCost','disk_revolve_optimal','DISKREVOLVE: the list disk_revolve produces is in the grammar DiskBlk.DBlk (each disk checkpoint written once and read once, every segment reversed by a memory-only block), costs exactly Dv l + (l+1) uf, and no list of that grammar costs less'),
   lifted('C07_Dv_recurrence','DiskCost','Dv_unfold','... where Dv is the Disk-Revolve recurrence: Dv l = min(opt_0[cm][l], min_j (wd + j uf + Dv (l-j) + rd + opt_0[cm][j-1]))'),
   lifted('C07_optinf_values','DiskCost','optinf_values','... which is what the extracted get_opt_inf_table tabulates'),
   lifted('C07_disk_le_revolve','DiskCost','disk_le_revolve','cost(DiskRevolve) <= cost(Revolve), same l, cm and costs'),
   lifted('C07_periodic_ge_disk','DiskCost','periodic_ge_disk','cost(PeriodicDiskRevolve) >= cost(DiskRevolve): the periodic list is in the DBlk grammar (PeriodGen.periodic_grammar)'),
   lifted('C07_disk_revolve_stream_cost','DiskCount','disk_revolve_stream_cost','DISKREVOLVE, THE STREAM: once the schedule is exhausted, uf * (forward steps executed) + ub * N + wd * (checkpoints written to DISK) + rd * (checkpoints loaded from DISK), read off the reference executor, equals Dv (N-1) + N uf, and no list of the grammar costs less'),
   lifted('C07_disk_stream_counts','DiskCount','disk_stream_counts','... because the executor counters at exhaustion are the counts of the operation list (DiskRevolve and PeriodicDiskRevolve alike)'),
   lifted('C07_blk_cost_lower_bound','DiskCost','Blk_cost_lb','(the lower bounds) every memory block ...'),
   lifted('C07_dblk_cost_lower_bound','DiskCost','DBlk_cost_lb','... and every disk block'),
   lifted('C07_hrevolve_stream_cost','HRevCount','hrevolve_stream_cost','HREVOLVE, THE STREAM (1 <= ram, 0 <= disk, 0 < uf, 0 <= wd, rd; ub unconstrained): once the schedule is exhausted, uf * (forward steps executed) + ub * N + wd * (checkpoints written to DISK) + rd * (checkpoints loaded from DISK), read off the reference executor, equals C(disk, N-1) + N uf, C the H-Revolve recurrence (HRevTable.Cm / Bv), and no operation list of the grammar HBd with that disk budget costs less'),
   lifted('C07_hrevolve_optimal_in_grammar','HRevCost','hrevolve_optimal','HREVOLVE, operation lists: the list the extracted hrevolve produces is in the grammar HRevCost.HBd (HRevBlk.HB, whose every list the executor accepts, indexed by the number of free disk slots; a disk write is always followed by the Forward that stores it), costs exactly C(disk, l) + (l+1) uf and no list of the grammar with that budget costs less.  PARTIAL with respect to the property text in one respect only: "the optimum of the hierarchical adjoint problem" is here the optimum over the grammar HBd (nested splits, the right part with one disk slot fewer, memory-only blocks at the leaves), not over every conceivable action stream'),
   lifted('C07_hopt_table_values','HRevTable','hopt_values','... because the tables get_hopt_table builds (two levels, w0 = r0 = 0 as HRevolve passes them) hold exactly these values: level 0 = the memory-only optimum val m l, optp[1][l][m] = B m l, opt[1][l][m] = C m l with B m l = min(val c0 l, min_j (j uf + C (m-1) (l-j) + rd + B m (j-1))), C m l = min(val c0 l, wd + B m l), C 0 = val c0'),
   lifted('C07_hrevolve_more_disk','HRevCost','hrevolve_more_disk','cost(HRevolve with d\' disk units) <= cost(HRevolve with d <= d\' units), same l, ram and costs'),
   lifted('C07_hrevolve_le_revolve','HRevCost','hrevolve_le_revolve','cost(HRevolve) <= cost(Revolve), same l, ram and costs'),
   lifted('C07_hrevolve_le_disk_revolve','HRevCost','hrevolve_le_disk_revolve','cost(HRevolve with at least l disk units) <= cost(DiskRevolve): the Disk-Revolve grammar is the sub-grammar of HBd whose left parts are memory-only'),
   lifted('C07_hbd_cost_lower_bound','HRevCost','HBd_cost_lb','(the lower bound) every list of HBd with d free disk slots for l steps costs at least C(d, l) + (l+1) uf (B(d, l) + (l+1) uf when its checkpoint is on disk already)'),
   lifted('C07_hrev_stream_counts','HRevCount','hrev_stream_counts','the executor counters at exhaustion are the counts of the operation list, for every list of HBd'),
   lifted('C07_argmin_min','RevCost','argmin_min','the split chosen is a minimiser'), lifted('C07_argmin_affine','RevCost','argmin_affine','the split does not depend on uf, ub')])
C09_runs = """(* unlimited adjoint calculations, each executable: the run theorems hold for every number k of further requests *)
Theorem C09_single_memory_passes : forall (N : Z), 1 <= N -> N <= maxsize -> forall k : nat,
  exists o0 m ls, run_case PMem (BasicInv.pm N) ([Next; Fin N] ++ repeat Next k) = Ok (o0, m, ls) /\\ mon_ok m /\\ no_raise ls.
Proof. exact single_memory_run. Qed.
Print Assumptions C09_single_memory_passes.
Theorem C09_single_disk_passes : forall (mv : bool) (N : Z), 1 <= N -> forall k : nat,
  exists o0 m ls, run_case (PDisk mv) (BasicInv.pd N) (repeat Next (Z.to_nat N) ++ [Fin N] ++ repeat Next k) = Ok (o0, m, ls) /\\ mon_ok m /\\ no_raise ls.
Proof. exact single_disk_run. Qed.
Print Assumptions C09_single_disk_passes.
Theorem C09_twolevel_passes : forall (N P bs : Z) (bst : storage) (tj : traj), 1 <= N -> 1 <= P -> 0 <= bs -> bst = RAM \\/ bst = DISK -> forall k : nat,
  exists o0 m ls, run_case (PTwo P bs bst tj) (ptl N P bs bst) (repeat Next (Z.to_nat (TLBridge.Q N P)) ++ [Fin N] ++ repeat Next (S k)) = Ok (o0, m, ls) /\\ mon_ok m /\\ no_raise ls.
Proof. exact twolevel_run. Qed.
Print Assumptions C09_twolevel_passes.

"""
mk('C09', ['MSTerm','OnlineFlags','Flags','RevConv','RevBridge4','RevolveRun','PassRepeat','Online','DiskRun','DiskBridge3','HRevRun','HRevTop','GenLang','GenBasic','GenLang2','GenTwo','GenLang3','GenMulti','GenLang4','GenConv','GenLang5','GenMixed','SeqGenSpec','HSeqGenSpec','ArgminGenSpec','HoptGenSpec','OptInfGenSpec','Opt0GenSpec'], [
   lifted('C09_basic_source_is_model','GenBasic','basic_from_start',BASIC_SRC),
   lifted('C09_twolevel_source_is_model','GenTwo','two_from_start',TWO_SRC),
   lifted('C09_multistage_source_is_model','GenMulti','multi_from_start',MULTI_SRC),
   lifted('C09_revolve_family_converter_is_source','GenConv','conv_from_start',CONV_SRC),
   lifted('C09_mixed_source_is_model','GenMixed','mixed_from_start',MIXED_SRC),
   seq_parts('C09'),
   lifted('C09_flags','Flags','C09_flags','FLAGS, all thirteen classes, every parameter tuple the constructor accepts, every history of next() / finalize(k) requests (ops), any executor parameters: before the first request is_exhausted = is_running = False; after every next() is_running = True; is_exhausted after a request = (the final action of the class has been yielded so far) -- final_action: EndForward for None, EndReverse for the offline classes and SingleDisk(move), none for SingleMemory, SingleDisk(copy), TwoLevel; no action is yielded once the final action has been seen (only StopIteration / an exception), and finalize never changes the flag. flags_hist is the trace rule, defined in Proofs/OnlineFlags.v'),
   C09_runs,
   lifted('C09_multistage_flags_on_runs','MultistageRun','multistage_flags','the same rule read on the raise-free Multistage runs of the run theorem (every line: is_running, and is_exhausted = (the action is EndReverse), StopIteration only with is_exhausted)'),
   lifted('C09_mixed_flags_on_runs','MixBridge','mixed_flags','... and on the Mixed runs'),
   lifted('C09_multistage_terminates','AllocTotal','multistage_terminates','the offline Multistage schedule concludes: EndReverse within 6 * TC N S + 1 requests'),
   lifted('C09_revolve_terminates','RevolveRun','revolve_terminates','the offline Revolve schedule concludes'),
   lifted('C09_disk_revolve_terminates','DiskRun','disk_revolve_terminates','the offline DiskRevolve schedule concludes (is_exhausted True after 2 |ops| + 2 requests at most)'),
   lifted('C09_periodic_terminates','DiskRun','periodic_terminates','the offline PeriodicDiskRevolve schedule concludes'),
   lifted('C09_hrevolve_terminates','HRevTop','hrevolve_terminates_total','the offline HRevolve schedule concludes'),
   lifted('C09_mixed_terminates','MixBridge','mixed_terminates','the offline Mixed schedule concludes: exhausted within N (N + 3) + N + 2 requests'),
   lifted('C09_passes_repeat','PassRepeat','passes_repeat','EXACT REPEAT (SingleMemory, SingleDisk copy, TwoLevel): two loop-head states of the same object (r = 0, not exhausted, same class / pc / max_n; n and -- for TwoLevel -- the emptied snapshot list may differ) emit the same outcomes for ever (outs j = the outcomes of j requests)'),
   lifted('C09_after_endreverse','PassRepeat','after_endreverse','... and the request that yields EndReverse of a non-exhausting object leaves it in such a loop head with the same class and max_n; the head reached by EndForward is of the same form (C09_*_passes give executability of every pass)'),
   lifted('C09_multistage_measure','MSTerm','mu_decreases','(auxiliary) termination measure of the Multistage machine decreases at every yielded action')])
mk('C10', ['BasicProofs'], [lifted('C10_online','BasicProofs','C10_online','online, not finalised: finalize(k) succeeds iff 1 <= k <= n, and then fixes max_n = n = k'),
   lifted('C10_known','BasicProofs','C10_known','max_n known: finalize(k) is a no-op iff k = max_n = n; state unchanged in every case'),
   lifted('C10_reject','BasicProofs','C10_reject','every other call: ValueError if k < 1 else RuntimeError, state unchanged'),
   lifted('C10_next_endforward','BasicProofs','C10_next_endforward','after a successful finalisation in the forward loop the next action is EndForward')])
mk('C11', ['SchedProofs','UsesProofs','ExecBudget','RevConv','RevBridge4','DiskUses','HRevUses','RevUses0'], [lifted('C11_uses_never_raises','SchedProofs','uses_never_raises','uses_storage_type never raises, for every StorageType member, in every state'),
   lifted('C11_touch_implies_uses','UsesProofs','touch_implies_uses','if an emitted action writes a checkpoint to RAM / DISK or copies / moves one from or to it, uses_storage_type of that storage is True: every state of the extracted objects of None, SingleMemory, SingleDisk, TwoLevel, Multistage, Mixed (well_built = counts stored in the object are those of its labels / storage is a checkpoint storage); the Revolve family is excluded from well_built (see the next two theorems)'),
   lifted('C11_revolve_touch_uses','ExecBudget','revolve_touch_uses','class Revolve, on its (error-free) runs: every yielded action that writes to / copies or moves from or to RAM or DISK finds uses_storage_type of that storage True in the observation taken right after it -- RAM needs snapshots_in_ram > 0 (the budget of the run), DISK is never touched'),
   lifted('C11_disk_touch_uses','DiskUses','disk_touch_uses','DiskRevolve and PeriodicDiskRevolve with at least one RAM snapshot (snapshots_in_ram = 0 is accepted for max_n = 1 only), every history (requests, finalize calls, Run loops in any order): RAM and DISK are reported as used at every observation, so whatever an action touches is reported as used'),
   lifted('C11_hrev_touch_uses','HRevUses','hrev_touch_uses','HRevolve, snapshots_in_ram >= 1 and snapshots_on_disk >= 0, every history: a touched storage is reported as used -- with a disk slot RAM and DISK are both reported; without one the op list is a memory-only block (the infinite column of optp[1]) and the converter never names DISK'),
   lifted('C11_revfam_no_ram_touch_uses','RevUses0','revfam_no_ram_touch_uses','the remaining corner of the Revolve family -- DiskRevolve, PeriodicDiskRevolve, HRevolve with snapshots_in_ram = 0, which the constructor accepts for max_n = 1 only: the op list is a single adjoint step and no yielded action touches RAM or DISK, under every history'),
   lifted('C11_touch_needs_budget','ExecBudget','run_touch','(auxiliary, class-independent) on any error-free monitored run the store sizes stay within the declared budgets and an action touching RAM / DISK is accepted only if that budget is positive')])
mk('C13', ['TLInv','TLSweep','Online','TLStorage','HRevUses','GenLang2','GenTwo'], [
   lifted('C13_twolevel_source_is_model','GenTwo','two_from_start',TWO_SRC),
   lifted('C13_sweep_pattern','TLSweep','twolevel_sweep','FIRST CLAUSE, extracted model, every period >= 1, every binomial_snapshots, both storages, both trajectories, every number j of requests before finalisation: the observations are exactly Forward(i P, (i+1) P, write_ics, DISK) with n = (i+1) P, r = 0, max_n unknown, not exhausted, for i = 0 .. j-1'),
   """(* the whole TwoLevel run on the extracted model *)
Theorem C13_twolevel_run : forall (N P bs : Z) (bst : storage) (tj : traj), 1 <= N -> 1 <= P -> 0 <= bs -> bst = RAM \\/ bst = DISK -> forall k : nat,
  exists o0 m ls, run_case (PTwo P bs bst tj) (ptl N P bs bst) (repeat Next (Z.to_nat (TLBridge.Q N P)) ++ [Fin N] ++ repeat Next (S k)) = Ok (o0, m, ls) /\\ mon_ok m /\\ no_raise ls.
Proof. exact twolevel_run. Qed.
Print Assumptions C13_twolevel_run.

""",
   lifted('C13_pass_totals','TLBridge','twolevel_totals','SECOND CLAUSE, totals on the extracted model: whenever the generator stands between adjoint passes (head of its `while True`: after EndForward / each EndReverse) the reference executor has carried out N + passes * W forward steps, W = TLBridge.W = the sum over the period blocks of T(block length, binomial_snapshots + 1) with T = Inst.TC, the work of the binomial recursion (= the Griewank-Walther optimum by C05_chain); every N (last block partial or full), both storages, both trajectories, all passes'),
   lifted('C13_block_total','TLInv','block_total','per block, on the TwoLevel machine of TLInv.v that the extracted machine is proved to follow (TLBridge.resume_agrees): when a block has been reversed completely, exactly T(L, b+1) forward steps were spent on it'),
   lifted('C13_storages','TLStorage','twolevel_storages','STORAGES, every history: a yielded Forward that stores a restart checkpoint names DISK or the binomial storage and stores nothing else; adjoint dependencies go to WORK only; a checkpoint is loaded into WORK from DISK or from the binomial storage'), lifted('C13_storages_step','TLStorage','resume_two_storage','... sharper, per request and from every state: while max_n is unknown a checkpointing Forward is Forward(n, n + period, True, False, DISK); once it is known, it goes to the binomial storage'), lifted('C13_exec_bridge','TLBridge','tl_exec_agrees','(auxiliary) the executor bridge of the TwoLevel invariant machine')])
mk('C14', ['AllocGenSpec','TopK','AllocProofs','SplitProofs','AllocMin','AllocGlue','GenLang3','GenMulti'], [lifted('C14_multistage_source_is_model','GenMulti','multi_from_start',MULTI_SRC), lifted('C14_labels_only','SplitProofs','C14_labels_only','first clause: two Multistage configurations with the same max_n, trajectory and number of labels produce the same stream up to the storage named in checkpoint actions (erase_out forgets RAM/DISK), from every state and for every number of requests'),
   lifted('C14_construct_labels','AllocProofs','construct_labels','the labels of a constructed Multistage schedule: all RAM or DISK, min(ram+disk, N-1) of them, at most min(ram, N-1) RAM and at most min(disk, N-1) DISK'),
   lifted('C14_alloc_labels_facts','AllocProofs','alloc_labels_facts','exactly min(ram, #positions) positions are labelled RAM'),
   lifted('C14_position_storage','AllocMin','ms_position_storage','second clause: a checkpoint pushed when the stack holds d entries is written to label d, and is read (Copy / Move) only while on top with d entries below it, from label d -- every state of the extracted machine'),
   lifted('C14_allocate_is_source','AllocGenSpec','allocate_is_source','ALLOCATE_SNAPSHOTS IS THE SOURCE: AllocGenSpec.alloc_pre_shape / handle_shape / alloc_tail_shape are the Gallina functions harness/translate.py renders from allocate_snapshots: the preamble (the three clamps to max_n - 1); the functools.singledispatch handlers action_copy / action_move / action_write / action_pass over the nonlocal snapshot_i and the list weights, as one step on (snapshot_i, weights) per action type (TypeError for an unregistered type; weights[i] += w is addat; write_weight = read_weight = 1 and delete_weight = 0 are the defaults of the signature, the only values the constructor calls it with); and the last statements (allocation = [DISK for _ in range(snapshots)]; for i, _ in sorted(enumerate(weights), key=itemgetter(1), reverse=True)[:snapshots_in_ram]: allocation[i] = RAM -- a stable descending sort, a prefix slice, list assignment).  Gen/AllocGen.v re-translates the current source on every run and proves the result equal to these terms by conversion; the driver loop (next(cp_schedule); action(cp_action); break at EndReverse), the dry-run constructor call and the assert are compared textually by the same generator.  Multistage.allocate, on which C14_alloc_min_disk / C14_min_disk_accesses are stated, is exactly that preamble, the handlers folded over the dry run of the model (weigh_shape), and that allocation, for all arguments'),
   lifted('C14_weigh_is_source','AllocGenSpec','weigh_is_shape','the weighing of the model (Multistage.weigh) is the fold of the translated handlers over the outcomes of the dry run, from every depth >= -1 and every weight list'),
   lifted('C14_alloc_min_disk','AllocMin','alloc_min_disk','last clause, the allocation step: for any non-negative per-position weights w, the labelling allocate_snapshots computes (alloc_labels w r) puts the least total weight on DISK among all RAM/DISK labellings with at most r RAM positions'),
   lifted('C14_disk_accesses_are_weights','AllocGlue','disk_accesses_are_weights','the glue: for every configuration c with the same max_n, trajectory and number of labels as the dry-run configuration c0, the number of accesses (checkpoint writes + loads) of its stream that name storage st is lsum st (labels c) w, w = the weights allocate_snapshots computes from the dry run; (streams are taken over fuel_for N requests, as in the model of allocate_snapshots)'),
   lifted('C14_min_disk_accesses','AllocGlue','multistage_min_disk','LAST CLAUSE: the constructed MultistageCheckpointSchedule(N, ram, disk) has the fewest DISK accesses among all label vectors of the same length with at most min(ram, N-1) RAM positions (all three constructor branches)')])
mk('C15', ['MemoCoh','SchedProofs','GenLang','GenBasic','GenLang2','GenTwo','GenLang3','GenMulti','GenLang4','GenConv','GenLang5','GenMixed','SeqGenSpec','HSeqGenSpec','ArgminGenSpec','HoptGenSpec','OptInfGenSpec','Opt0GenSpec','TabulGenSpec','HelperCoh','MixHelperCoh','HelperGenSpec','MixHelperSpec'], [
   lifted('C15_basic_source_is_model','GenBasic','basic_from_start','THE STREAM IS A FUNCTION OF THE PARAMETERS AND THE REQUESTS: the generators, sequence generators, tables and planners below are re-translated from the source on every run (Gen/*.v) into pure Gallina terms -- no module-level or class-level state exists in them -- and proved to give the observations of the extracted model under every history; a source in which one object can influence another is outside the translated subset.  ' + BASIC_SRC),
   lifted('C15_twolevel_source_is_model','GenTwo','two_from_start',TWO_SRC), lifted('C15_multistage_source_is_model','GenMulti','multi_from_start',MULTI_SRC),
   lifted('C15_revolve_family_converter_is_source','GenConv','conv_from_start',CONV_SRC), lifted('C15_mixed_source_is_model','GenMixed','mixed_from_start',MIXED_SRC), seq_parts('C15'),
   lifted('C15_tabulation_is_source','TabulGenSpec','tabul_shape_is_model','the tabulated planner of Mixed (Gen/TabulGen.v)'),
   lifted('C15_memo_warm_planC','MemoCoh','memo_warm_planC','the memoised planner as the extracted iterator uses it (cache warmed by an arbitrary earlier call) returns the canonical plan for every sub-problem'),
   lifted('C15_memoS_total','MemoCoh','memoS_total','with enough fuel a call succeeds from any coherent cache'),lifted('C15_cache_coherent','MemoCoh','C15_cache_coherent','every cache reachable by any sequence of calls holds only correct entries'),
   lifted('C15_history_independent','MemoCoh','C15_history_independent','a successful call returns the pure value whatever the call history'),
   lifted('C15_helper_cache_coherent','HelperCoh','helper_cache_coherent','THE SECOND PROCESS-GLOBAL CACHE (cache_step around optimal_extra_steps, Model/Binomial.v EmS with the dictionary explicit -- the form the extracted driver runs and the correspondence compares with the implementation): every dictionary reachable by any sequence of calls holds only valid keys with the value EC n s of the pure dynamic program'),
   lifted('C15_helper_history_independent','HelperCoh','helper_history_independent','... so a successful call returns, whatever the call history, the value of the pure recursion Binomial.Em (= BinomDP.Em by HelperCoh.Em_cv, which Gen/HelperGen.v proves to be the translated source of optimal_extra_steps)'),
   lifted('C15_helper_total','HelperCoh','EmS_total','with enough fuel a call succeeds from any coherent dictionary'),
   lifted('C15_mixhelper_total','MixHelperCoh','OsmS_total','likewise for optimal_steps_mixed'),
   lifted('C15_helper_source_is_pure','HelperGenSpec','oes_shape_is_Em',HELPER_SRC),
   lifted('C15_mixhelper_cache_coherent','MixHelperCoh','mixhelper_cache_coherent','THE THIRD PROCESS-GLOBAL CACHE (cache_step around optimal_steps_mixed, Model/Binomial.v OsmS): every reachable dictionary holds only valid keys with the cost MixDP.C n s of the canonical plan'),
   lifted('C15_mixhelper_history_independent','MixHelperCoh','mixhelper_history_independent','... so a successful call returns, whatever the call history, the value of the pure recursion MixHelperSpec.osm_shape, which Gen/MixHelperGen.v proves to be the translated source of optimal_steps_mixed')])
mk('C16', ['TabEq','TabSim','MemoCoh','MixPaths','GenLang5','GenMixed','TabulGenSpec'], [lifted('C16_mixed_source_is_model','GenMixed','mixed_from_start',MIXED_SRC),
   lifted('C16_tabulation_is_source','TabulGenSpec','tabul_shape_is_model','THE TABULATED PLANNER IS THE SOURCE: TabulGenSpec.tabul_shape is the Gallina function harness/translate.py renders from mixed_steps_tabulation (a cell schedule[n_i, s_i, :] is one entry of Mixed.table, an assignment Mixed.tset, a read Mixed.tget, assert raises AssertionError; Gen/TabulGen.v re-translates the current source on every run and proves the result equal to this term by conversion); for n >= 1 it returns a table exactly when the extracted Mixed.tabulate does, the same one (they differ only in the exception and read order of a failing assert, which C16_tabulate_planC excludes)'),
   lifted('C16_streams_equal','MixPaths','mixed_paths_same_stream','STREAMS: on the extracted model the whole monitored run of MixedCheckpointSchedule -- every outcome, every observation (n, r, max_n, flags, uses_storage_type) and the executor state -- is the same on the tabulated path (tab = true) and on the memoised path (tab = false), for every N, unit count, storage and number of requests'),
   lifted('C16_tabulate_planC','TabSim','tabulate_planC','the extracted tabulated planner (list of lists, as the numpy array) succeeds and every entry is the canonical plan'),
   lifted('C16_memo_warm_planC','MemoCoh','memo_warm_planC','... and so is every answer of the extracted memoised planner: the two paths prescribe the same kind, length and cost'),lifted('C16_table','TabEq','C16_table','the tabulated planner never fails an assertion and every entry equals the memoised planner')])
C17_complete = '''(* valid parameters yield a complete stream: the run theorems, which have no hypothesis beyond the documented domain
   (degenerate cases max_n = 1 and more units than steps included); the streams end with EndReverse by C09_flags + termination *)
Theorem C17_multistage_complete : forall (N ram disk : Z) (tj : traj) (k : nat), 1 <= N -> 0 <= ram -> 0 <= disk -> (2 <= N -> 1 <= ram + disk) ->
  exists o0 m ls, run_case (PMulti N ram disk tj) (ms_params N ram disk) (repeat Next k) = Ok (o0, m, ls) /\\ mon_ok m /\\ no_raise ls.
Proof. exact multistage_run_total. Qed.
Print Assumptions C17_multistage_complete.
Theorem C17_mixed_complete : forall (N s : Z) (sg : storage) (tab : bool) (k : nat), 1 <= N -> 0 <= s -> (2 <= N -> 1 <= s) -> sg = RAM \\/ sg = DISK ->
  exists o0 m ls, run_case (PMixed N s sg tab) (pmx N (Z.min s (N - 1)) sg) (repeat Next k) = Ok (o0, m, ls) /\\ mon_ok m /\\ no_raise ls.
Proof. exact mixed_run. Qed.
Print Assumptions C17_mixed_complete.
Theorem C17_revolve_complete : forall (N ram disk uf ub wd rd : Z) (k : nat), 1 <= N -> 0 <= ram -> (2 <= N -> 1 <= ram) ->
  exists o0 m ls, run_case (PRev RevConv.KRevolve N ram disk uf ub wd rd) (RevBridge4.rev_xparams N ram) (repeat Next k) = Ok (o0, m, ls) /\\ mon_ok m /\\ no_raise ls.
Proof. exact RevolveRun.revolve_run. Qed.
Print Assumptions C17_revolve_complete.
Theorem C17_disk_revolve_complete : forall (N ram disk uf ub wd rd : Z) (k : nat), 1 <= N -> 0 <= ram -> (2 <= N -> 1 <= ram) ->
  exists o0 m ls, run_case (PRev RevConv.KDiskRevolve N ram disk uf ub wd rd) (DiskRun.disk_xparams N ram) (repeat Next k) = Ok (o0, m, ls) /\\ no_raise ls /\\ DiskBridge3.leftover_or_ok m.
Proof. exact DiskRun.disk_revolve_run. Qed.
Print Assumptions C17_disk_revolve_complete.
Theorem C17_periodic_complete : forall (N ram disk uf ub wd rd : Z) (k : nat), 1 <= N -> 0 <= ram -> (2 <= N -> 1 <= ram) ->
  exists o0 m ls, run_case (PRev RevConv.KPeriodic N ram disk uf ub wd rd) (DiskRun.disk_xparams N ram) (repeat Next k) = Ok (o0, m, ls) /\\ no_raise ls /\\ DiskBridge3.leftover_or_ok m.
Proof. exact DiskRun.periodic_run. Qed.
Print Assumptions C17_periodic_complete.
Theorem C17_hrevolve_complete : forall (N ram disk uf ub wd rd : Z) (k : nat), 1 <= N -> 0 <= ram -> (2 <= N -> 1 <= ram) -> 0 <= disk ->
  exists o0 m ls, run_case (PRev RevConv.KHRevolve N ram disk uf ub wd rd) (DiskRun.disk_xparams N ram) (repeat Next k) = Ok (o0, m, ls) /\\ no_raise ls /\\ DiskBridge3.leftover_or_ok m.
Proof. exact HRevTop.hrevolve_run_total. Qed.
Print Assumptions C17_hrevolve_complete.
Theorem C17_twolevel_complete : forall (N P bs : Z) (bst : storage) (tj : traj), 1 <= N -> 1 <= P -> 0 <= bs -> bst = RAM \\/ bst = DISK -> forall k : nat,
  exists o0 m ls, run_case (PTwo P bs bst tj) (ptl N P bs bst) (repeat Next (Z.to_nat (TLBridge.Q N P)) ++ [Fin N] ++ repeat Next (S k)) = Ok (o0, m, ls) /\\ mon_ok m /\\ no_raise ls.
Proof. exact twolevel_run. Qed.
Print Assumptions C17_twolevel_complete.

'''
mk('C17', ['NAdv','AllocProofs','InvalidProofs','RevConv','RevBridge4','RevolveRun','RevBridge6','DiskRun','DiskBridge3','DiskGen','PeriodGen','HRevTotal','HRevTop','SeqGenSpec','HSeqGenSpec','ArgminGenSpec','HoptGenSpec','OptInfGenSpec','Opt0GenSpec'], [C17_complete, seq_parts('C17'),
   lifted('C17_multistage_construct_total','AllocTotal','construct_total','the Multistage constructor returns for every tuple of the domain'),
   lifted('C17_allocate_total','AllocTotal','allocate_total','allocate_snapshots (dry run of the schedule with placeholder labels, weighing, top-k) never raises on the domain'),
   lifted('C17_n_advance_total','NAdv','n_advance_spec','n_advance never raises on its domain; range; limiting cases; optimal region'),
   lifted('C17_construct_labels','AllocProofs','construct_labels','shape of a constructed Multistage schedule'),
   lifted('C17_multistage_rejects_max_n','InvalidProofs','multistage_rejects_max_n','max_n < 1: ValueError at construction'),
   lifted('C17_multistage_no_units','InvalidProofs','multistage_no_units','no unit and max_n > 1: the constructor returns, the first next() raises ValueError and the generator is finished -- no action is ever emitted'),
   lifted('C17_mixed_rejects','InvalidProofs','mixed_rejects','Mixed: max_n < 1, no unit for max_n > 1, or a storage other than RAM / DISK: ValueError at construction (both planner paths)'),
   lifted('C17_twolevel_rejects','InvalidProofs','twolevel_rejects','TwoLevel: period < 1 or a binomial storage other than RAM / DISK: ValueError at construction'),
   lifted('C17_revolve_top_total','RevBridge6','revolve_top_total','the Revolve op-list generator (table + recursion) never fails on the domain'),
   lifted('C17_disk_revolve_top_total','DiskGen','disk_revolve_top_total','the DiskRevolve op-list generator (both tables + recursion) never fails on the domain'),
   lifted('C17_periodic_top_total','PeriodGen','periodic_top_total','the PeriodicDiskRevolve op-list generator never fails on the domain, and its period is mxrr'),
   lifted('C17_hrevolve_total','HRevTotal','hrevolve_total','the HRevolve op-list generator never fails on the domain: get_hopt_table never indexes out of range, hrevolve_aux is never called without a slot, the recursion fuel suffices'),
   lifted('C17_hopt_table_total','HRevTotal','hopt_table_total','get_hopt_table (K = 2) returns, with tables of the right dimensions whose column m = 0 of optp[1] is infinite from l = 2 on'),
   lifted('C17_revolve_family_rejects','InvalidProofs','revolve_rejects','Revolve family: max_n < 1 or no RAM unit for max_n > 1 is an exception at construction; that valid tuples always yield a complete stream is proved for Revolve, DiskRevolve, PeriodicDiskRevolve, HRevolve (C17_*_complete)')])
C18_runs = safety('C18','C18','') + disk_safety('C18','C18') + hrev_safety('C18','C18')
mk('C18', ['Repr','ActVal','ActValProofs','Ops','RevConv','RevBridge4','RevolveRun','DiskRun','OnlineWF','HRevRun','HRevTop','TLWF'], [C18_runs, lifted('C18_basic_wf_every_history','OnlineWF','basic_wf_every_history','NoneCheckpointSchedule, SingleMemoryStorageSchedule, SingleDiskStorageSchedule under EVERY history (requests, valid or rejected finalize calls, Run loops, in any order and number; any executor parameters): every yielded action is well formed (wf_action: the E_malformed requirements of the executor)'), lifted('C18_twolevel_wf_every_history','TLWF','twolevel_wf_every_history','TwoLevelCheckpointSchedule (period >= 1, binomial_snapshots >= 0, binomial storage RAM or DISK, both trajectories) under EVERY history: every yielded action is well formed -- an accepted finalize(k), wherever it comes, puts the object in the state of the canonical run for max_n = k'), lifted('C18_wf_not_malformed','OnlineWF','wf_not_malformed','wf_action is exactly what the executor needs not to report E_malformed'), lifted('C18_z_roundtrip','Repr','z_roundtrip','decimal printing of integers parses back'), lifted('C18_repr_roundtrip','ActValProofs','repr_roundtrip','VALUE LAWS on the model ActVal (repr / the reading back of a repr / len / iteration / membership; tied to schedule.py by the val.act correspondence cases, which compare the texts and results with the implementation on directly constructed actions, and by the translation obligations of Gen/ActValGen.v): the text repr() prints, sys.maxsize special case included, reads back to the same action -- every action, every integer'),
   lifted('C18_repr_injective','ActValProofs','repr_injective','... hence two actions with the same repr are the same action'),
   lifted('C18_eq_is_equality','ActValProofs','act_eqb_eq','== holds exactly between actions of the same kind with equal parameters (total: never raises)'),
   lifted('C18_eq_iff_repr','ActValProofs','eq_iff_repr','== holds iff the reprs are equal'),
   lifted('C18_steps_enumerated','ActValProofs','steps_enumerated','Forward / Reverse covering n0 .. n1-1 (n0 <= n1): iteration yields a duplicate-free list of exactly the steps k with n0 <= k < n1, ascending for Forward and descending for Reverse, len is its length n1 - n0, and `k in a` holds exactly for its members'),
   lifted('C18_no_steps_elsewhere','ActValProofs','no_steps','Copy, Move, EndForward, EndReverse define none of len / iteration / membership (TypeError)')])
mk('C19', ['PeriodProofs','PeriodShape','SeqGenSpec','MxrrGenSpec'], [lifted('C19_period_is_source','MxrrGenSpec','mxrr_shape_is_model','THE PERIOD FORMULA IS THE SOURCE: MxrrGenSpec.mxrr_shape is the Gallina function harness/translate.py renders from mxrr_close_formula (periodic_disk_revolve.py) and beta (basic_functions.py): t = 0; while beta(cm + 1, t) <= (wd + rd) / uf: t += 1; return int(beta(cm, t)) -- with the floating-point test a <= b / uf read as the exact a * uf <= b (uf > 0) and the factorial quotient as the binomial coefficient BinomDef.beta (the trusted reading, DESIGN 10); Gen/MxrrGen.v re-translates the current source on every run and proves the result equal to that term by conversion.  For every cm >= 0 and all costs it is RevSeq.mxrr, the period of C19_period_closed_form and of every PeriodicDiskRevolve theorem'),lifted('C19_periodic_sequence_is_source', 'SeqGenSpec', 'periodic_top_is_source', SEQ_SRC),lifted('C19_periodic_shape','PeriodShape','periodic_shape','the whole operation sequence, every l = max_n - 1 >= 0 and cm >= 1: sweep ++ revolve(last segment) ++ (Read_disk + revolve(one period)) per disk checkpoint, last first; k disk checkpoints, written exactly while more than mx steps remain; the pieces come from the memory-only generator `revolve` on the opt_0 table (the generator of class Revolve: C07) and contain no disk operation; hence disk writes only in the sweep at 0, mx, ..., (k-1) mx, none afterwards, and each disk checkpoint is read exactly once'), lifted('C19_periodic_sweep_writes','PeriodProofs','periodic_sweep_writes','disk writes of the forward sweep are exactly at 0, m, 2m, ... while more than m steps remain'),
   lifted('C19_period_closed_form','PeriodProofs','periodic_period_closed_form','the period is beta(cm, tm) with tm the least t such that beta(cm+1, t) uf > wd + rd; independent of N')])

for pid, body in files.items():
    open('Props/%s.v' % pid, 'w').write(body)
    print(pid, 'written')
